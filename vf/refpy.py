"""Reference model of the Python API a pybind wrapper must expose (C03) and of each binding's
forwarding (C04, structural part), written from the property statements and DOCS.md.

expected_api(module_spec, top, ignore, serialization) -> {'records': set of tuples, 'submodules': [...]}
observed_api(wrapped_namespace_text)                  -> same, from the scanner (vf.gen.scan_pybind)
"""
import keyword

from vf import refinst as R

# Python keywords that are legal identifiers in the interface dialect AND in C++
CPP_RESERVED = {'and', 'or', 'not', 'break', 'class', 'continue', 'else', 'for', 'if', 'return', 'try', 'while'}
PY_KEYWORDS_USABLE = [k for k in keyword.kwlist if k not in CPP_RESERVED]


def pyname(n):
    return n + '_' if keyword.iskeyword(n) else n


def modvar(path, top):
    """Python (sub)module path of a namespace, relative to the top module ('' = the module itself)."""
    return '.'.join(path[len(top):])


def op_expr(o, nargs):
    if o == '[]':
        return '__getitem__'
    if o == '()':
        return '__call__'
    if nargs == 0:
        return '%spy::self' % o
    return 'py::self %s py::self' % o


def expected_api(module, top=('',), ignore=(), serialization=False):
    """top: like PybindWrapper.top_module_namespaces, e.g. ['', 'gtsam']."""
    top = list(top)
    inst = R.expected_instances(module)
    recs = set()
    subs = []      # (var, parent var, name) in creation order
    includes = []
    _walk(module, inst, [], top, set(ignore), serialization, recs, subs, includes)
    return {'records': recs, 'submodules': subs, 'includes': includes}


def _walk(spec_content, inst_scope, path, top, ignore, ser, recs, subs, includes):
    full = [''] + path
    n = min(len(full), len(top))
    if full[:n] != top[:n]:
        return
    # includes are collected from every visited level
    for d in spec_content:
        if d['k'] == 'include':
            includes.append(d['h'])
    spec_ns = [d for d in spec_content if d['k'] == 'ns']
    inst_ns = [d for d in inst_scope['c'] if d['k'] == 'ns']
    if len(full) < len(top):
        for s, i in zip(spec_ns, inst_ns):
            _walk(s['c'], i, path + [s['n']], top, ignore, ser, recs, subs, includes)
        return
    mv = modvar(full, top)
    if len(full) > len(top) and (mv, modvar(full[:-1], top), path[-1]) not in subs:
        subs.append((mv, modvar(full[:-1], top), path[-1]))     # a re-opened namespace is one submodule
    spec_classes = {}
    for d in spec_content:
        if d['k'] == 'class':
            spec_classes[d['n']] = d
    ns_iter = iter(zip(spec_ns, inst_ns))
    for i in list(inst_scope['c']) + list(inst_scope['td']):
        k = i['k']
        if k == 'ns':
            s, ii = next(ns_iter)
            _walk(s['c'], ii, path + [s['n']], top, ignore, ser, recs, subs, includes)
        elif k == 'class':
            _class(i, mv, ignore, ser, recs)
        elif k == 'decl':
            if i['cpp'] not in {R.norm(x) for x in ignore}:
                recs.add(('class', mv, i['n'], i['cpp'], None))
        elif k == 'enum':
            cpp = '::'.join(path + [i['n']])
            recs.add(('enum', mv, i['n'], cpp))
            for e in i['e']:
                recs.add(('enumerator', cpp, e, cpp + '::' + e))
        elif k == 'var':
            recs.add(('attr', mv, i['n']))
        elif k == 'func':
            fn = i['n']
            recs.add(('function', mv, pyname(fn) if fn != 'print' else 'print_', tuple(a['t'] for a in i['a'])))


def _class(i, mv, ignore, ser, recs):
    cpp = i['cpp']
    if cpp in {R.norm(x) for x in ignore}:
        return
    recs.add(('class', mv, i['n'], cpp, i['b']))
    for c in i['ctor']:
        recs.add(('ctor', cpp, tuple(a['t'] for a in c['a'])))
    for kind in ('method', 'static'):
        for m in i[kind]:
            base = m['call'].split('<')[0]
            if base in ('serialize', 'serializable'):
                if ser:
                    recs.add(('method', cpp, 'serialize', (), False))
                    recs.add(('method', cpp, 'deserialize', ('string',), False))
                    recs.add(('pickle', cpp))
                continue
            recs.add(('method', cpp, pyname(m['n']), tuple(a['t'] for a in m['a']), kind == 'static'))
    for p in i['prop']:
        recs.add(('prop', cpp, p['n']))
    for o in i['op']:
        recs.add(('op', cpp, op_expr(o['o'], len(o['a']))))
    for d in i['dunder']:
        recs.add(('dunder', cpp, '__%s__' % d))
    for e in i.get('enum_full', []):
        ecpp = cpp + '::' + e['n']
        recs.add(('enum', 'class:' + cpp, e['n'], ecpp))
        for x in e['e']:
            recs.add(('enumerator', ecpp, x, ecpp + '::' + x))


def observed_api(wrapped):
    """Records + structural complaints from the generated wrapped-namespace text."""
    from vf import gen
    scan = gen.scan_pybind(wrapped)
    recs = []
    problems = []
    subs = []
    defined = {'m_'}
    pypath = {'m_': ''}
    classvars = {}

    def P(var):
        return pypath.get(var, '?' + var)
    for r in scan:
        k = r['k']
        if k == 'submodule':
            if r['var'] in defined:
                problems.append(('submodule-created-twice', r['var']))
            if r['parent'] not in defined:
                problems.append(('submodule-parent-undefined', r['var']))
            defined.add(r['var'])
            pp = P(r['parent'])
            pypath[r['var']] = (pp + '.' if pp else '') + r['py']
            subs.append((pypath[r['var']], pp, r['py']))
        elif k == 'class':
            if r['module'] not in defined:
                problems.append(('module-var-used-before-creation', r['module']))
            base = None
            targs = [t for t in r['targs'] if not t.startswith('std::shared_ptr<' + r['cpp'])]
            if targs:
                base = targs[0]
            recs.append(('class', P(r['module']), r['py'], R.norm(r['cpp']), R.norm(base) if base else None))
            if r.get('var'):
                classvars[r['var']] = r['cpp']
            for m in r['members']:
                mk = m['kind']
                if mk == 'ctor':
                    recs.append(('ctor', R.norm(r['cpp']), tuple(R.norm(t) for t in m['types'])))
                elif mk in ('method', 'static'):
                    params = m['params']
                    if m['py'] == '__repr__' and 'redirect' in m['body']:
                        continue      # __repr__ companion of print (documented special name, not in the alphabet)
                    if mk == 'method' and params and params[0][1] == 'self':
                        params = params[1:]
                        is_static = False
                    else:
                        is_static = mk == 'static'
                    if m['py'].startswith('__') and m['py'].endswith('__') and m['py'] in ('__len__', '__contains__', '__iter__'):
                        recs.append(('dunder', R.norm(r['cpp']), m['py']))
                    else:
                        recs.append(('method', R.norm(r['cpp']), m['py'], tuple(R.norm(t) for t, _ in params), is_static))
                elif mk == 'prop':
                    recs.append(('prop', R.norm(r['cpp']), m['py']))
                elif mk == 'operator':
                    recs.append(('op', R.norm(r['cpp']), m['expr']))
                elif mk == 'memberptr':
                    recs.append(('op', R.norm(r['cpp']), m['py']))
                elif mk == 'pickle':
                    recs.append(('pickle', R.norm(r['cpp'])))
                else:
                    problems.append(('unclassified-member', m['raw'][:80]))
        elif k == 'enum':
            mod = r['module']
            if mod not in defined and mod not in classvars:
                problems.append(('module-var-used-before-creation', mod))
            recs.append(('enum', 'class:' + R.norm(classvars[mod]) if mod in classvars else P(mod), r['py'], R.norm(r['cpp'])))
            for m in r['members']:
                if m['kind'] == 'enumerator':
                    recs.append(('enumerator', R.norm(r['cpp']), m['py'], R.norm(m['target'])))
                else:
                    problems.append(('unclassified-enum-member', m['raw'][:80]))
        elif k == 'attr':
            if r['module'] not in defined:
                problems.append(('module-var-used-before-creation', r['module']))
            recs.append(('attr', P(r['module']), r['py']))
        elif k == 'function':
            if r['module'] not in defined:
                problems.append(('module-var-used-before-creation', r['module']))
            if r.get('kind') in ('method', 'static'):
                recs.append(('function', P(r['module']), r['py'], tuple(R.norm(t) for t, _ in r['params'])))
            else:
                problems.append(('unclassified-function', r['raw'][:80]))
        else:
            problems.append(('unclassified-statement', r['stmt'][:80]))
    return {'records': recs, 'submodules': subs, 'problems': problems, 'scan': scan}
