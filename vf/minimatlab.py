"""mini-MATLAB: parser (+ interpreter, see `Interp`) for the subset of MATLAB that the generator emits.

Grammar handled (anything else is a ParseError, which callers report as *inconclusive*, never silently):
    [% comments] classdef NAME < QNAME  { properties..end | methods[(Static = true)] funcs end | enumeration..end } end
    function [out =] NAME[.NAME](params) [, stmt; end]  stmts  end
    if / elseif / else / end,  lhs = expr;  [a, b] = f(..);  [ a b ] = f(..);  call(..);  return,  error('..')
    expressions: && || == ~= ~  numbers strings names  a.b  a{i} a{:}  f(args)  obj@pkg.Base(args)  uint64(n)
"""
import re


class ParseError(Exception):
    pass


# ------------------------------------------------------------------ tokenizer (per line)
TOK = re.compile(r"""
    (?P<ws>\s+)
  | (?P<num>\d+(?:\.\d+)?(?:[eE][-+]?\d+)?)
  | (?P<str>'(?:[^']|'')*')
  | (?P<name>[A-Za-z_]\w*)
  | (?P<op>&&|\|\||==|~=|<=|>=|[-+*/<>=~(){}\[\],;:.@])
""", re.X)


def tokenize(line):
    toks = []
    i = 0
    n = len(line)
    while i < n:
        if line[i] == '%':
            break
        m = TOK.match(line, i)
        if not m:
            raise ParseError('cannot tokenize %r at %d' % (line, i))
        i = m.end()
        k = m.lastgroup
        if k == 'ws':
            continue
        v = m.group(k)
        if k == 'str':
            # a quote directly after a name/closing bracket would be transpose; the generator never emits that
            v = v[1:-1].replace("''", "'")
        toks.append((k, v))
    return toks


# ------------------------------------------------------------------ expression parser
class P:
    def __init__(self, toks):
        self.t = toks
        self.i = 0

    def peek(self, k=0):
        return self.t[self.i + k] if self.i + k < len(self.t) else (None, None)

    def eat(self, v=None):
        k, val = self.peek()
        if k is None or (v is not None and val != v):
            raise ParseError('expected %r, found %r in %r' % (v, val, self.t))
        self.i += 1
        return k, val

    def at(self, v):
        k, val = self.peek()
        return k == 'op' and val == v or (k == 'name' and val == v)

    def done(self):
        return self.i >= len(self.t)

    def expr(self):
        return self.or_()

    def or_(self):
        a = self.and_()
        while self.peek() == ('op', '||'):
            self.eat()
            a = ('or', a, self.and_())
        return a

    def and_(self):
        a = self.cmp()
        while self.peek() == ('op', '&&'):
            self.eat()
            a = ('and', a, self.cmp())
        return a

    def cmp(self):
        a = self.unary()
        while self.peek()[0] == 'op' and self.peek()[1] in ('==', '~=', '<', '>', '<=', '>='):
            op = self.eat()[1]
            a = ('cmp', op, a, self.unary())
        return a

    def unary(self):
        if self.peek() == ('op', '~'):
            self.eat()
            return ('not', self.unary())
        if self.peek() == ('op', '-'):
            self.eat()
            return ('neg', self.unary())
        return self.postfix()

    def postfix(self):
        k, v = self.peek()
        if k == 'num':
            self.eat()
            return ('num', v)
        if k == 'str':
            self.eat()
            return ('str', v)
        if (k, v) == ('op', '('):
            self.eat()
            e = self.expr()
            self.eat(')')
            return ('paren', e)
        if (k, v) == ('op', ':'):
            self.eat()
            return ('colon',)
        if k != 'name':
            raise ParseError('unexpected token %r in %r' % (v, self.t))
        self.eat()
        node = ('name', v)
        while True:
            k2, v2 = self.peek()
            if (k2, v2) == ('op', '.') and self.peek(1)[0] == 'name':
                self.eat()
                node = ('field', node, self.eat()[1])
            elif (k2, v2) == ('op', '('):
                self.eat()
                args = self.args(')')
                node = ('call', node, args)
            elif (k2, v2) == ('op', '{'):
                self.eat()
                args = self.args('}')
                node = ('cell', node, args)
            elif (k2, v2) == ('op', '@'):
                self.eat()
                tgt = ('name', self.eat()[1])
                while self.peek() == ('op', '.'):
                    self.eat()
                    tgt = ('field', tgt, self.eat()[1])
                self.eat('(')
                args = self.args(')')
                node = ('supercall', node, tgt, args)
            else:
                return node

    def args(self, close):
        out = []
        if self.peek() == ('op', close):
            self.eat()
            return out
        while True:
            out.append(self.expr())
            if self.peek() == ('op', ','):
                self.eat()
                continue
            self.eat(close)
            return out


def qname(node):
    """Dotted name of a name/field chain, or None."""
    if node[0] == 'name':
        return node[1]
    if node[0] == 'field':
        q = qname(node[1])
        return None if q is None else q + '.' + node[2]
    return None


# ------------------------------------------------------------------ statement / file parser
def parse_stmt_tokens(toks):
    """One simple statement from a token list (no trailing ';')."""
    if not toks:
        return None
    if toks[0] == ('name', 'return') and len(toks) == 1:
        return ('return',)
    # multi-assignment  [ a, b ] = ... or [ a b ] = ...
    if toks[0] == ('op', '['):
        j = toks.index(('op', ']'))
        lhs_toks = [t for t in toks[1:j] if t != ('op', ',')]
        # split lhs list into individual lvalues: each begins with a name
        lvals = []
        cur = []
        depth = 0
        for t in lhs_toks:
            if t[0] == 'name' and depth == 0 and cur and cur[-1][0] != 'op':
                lvals.append(cur)
                cur = []
            elif t[0] == 'name' and depth == 0 and cur and cur[-1] == ('op', '}'):
                lvals.append(cur)
                cur = []
            if t == ('op', '{'):
                depth += 1
            if t == ('op', '}'):
                depth -= 1
            cur.append(t)
        if cur:
            lvals.append(cur)
        if toks[j + 1] != ('op', '='):
            raise ParseError('expected = after [..] in %r' % (toks,))
        p = P(toks[j + 2:])
        rhs = p.expr()
        if not p.done():
            raise ParseError('trailing tokens in %r' % (toks,))
        return ('massign', [P(lv).expr() for lv in lvals], rhs)
    # single assignment: find top-level '='
    depth = 0
    for i, t in enumerate(toks):
        if t[0] == 'op' and t[1] in '({[':
            depth += 1
        elif t[0] == 'op' and t[1] in ')}]':
            depth -= 1
        elif t == ('op', '=') and depth == 0:
            lp = P(toks[:i])
            lhs = lp.expr()
            rp = P(toks[i + 1:])
            rhs = rp.expr()
            if not lp.done() or not rp.done():
                raise ParseError('trailing tokens in %r' % (toks,))
            return ('assign', lhs, rhs)
    p = P(toks)
    e = p.expr()
    if not p.done():
        raise ParseError('trailing tokens in %r' % (toks,))
    return ('expr', e)


def split_semis(toks):
    out, cur, depth = [], [], 0
    for t in toks:
        if t[0] == 'op' and t[1] in '({[':
            depth += 1
        elif t[0] == 'op' and t[1] in ')}]':
            depth -= 1
        if t == ('op', ';') and depth == 0:
            if cur:
                out.append(cur)
            cur = []
        else:
            cur.append(t)
    if cur:
        out.append(cur)
    return out


class FileParser:
    def __init__(self, text, name='<m>'):
        self.lines = []
        for ln, raw in enumerate(text.split('\n'), 1):
            toks = tokenize(raw)
            if toks:
                self.lines.append((ln, toks, raw))
        self.i = 0
        self.name = name
        self.leading_comments = [l for l in text.split('\n') if l.startswith('%')]

    def peek(self):
        return self.lines[self.i] if self.i < len(self.lines) else (None, None, None)

    def next(self):
        r = self.peek()
        self.i += 1
        return r

    def parse(self):
        ln, toks, raw = self.peek()
        if toks is None:
            raise ParseError('empty file')
        if toks[0] == ('name', 'classdef'):
            r = self.classdef()
        elif toks[0] == ('name', 'function'):
            r = ('functionfile', self.function())
        else:
            raise ParseError('unexpected first statement %r' % raw)
        if self.peek()[1] is not None:
            raise ParseError('trailing content after top-level construct: %r' % self.peek()[2])
        return r

    def classdef(self):
        ln, toks, raw = self.next()
        p = P(toks)
        p.eat('classdef')
        cname = p.eat()[1]
        p.eat('<')
        base = [p.eat()[1]]
        while not p.done():
            p.eat('.')
            base.append(p.eat()[1])
        cls = {'kind': 'classdef', 'name': cname, 'base': '.'.join(base), 'properties': [], 'methods': [],
               'static': [], 'enumeration': [], 'blocks': []}
        while True:
            ln, toks, raw = self.peek()
            if toks is None:
                raise ParseError('unterminated classdef')
            if toks == [('name', 'end')]:
                self.next()
                return cls
            if toks[0] == ('name', 'properties'):
                self.next()
                cls['blocks'].append('properties')
                while self.peek()[1] != [('name', 'end')]:
                    ln, t, raw = self.next()
                    if t is None:
                        raise ParseError('unterminated properties')
                    pname = t[0][1]
                    dflt = None
                    if len(t) > 1:
                        if t[1] != ('op', '='):
                            raise ParseError('bad property line %r' % raw)
                        dflt = P(t[2:]).expr()
                    cls['properties'].append((pname, dflt))
                self.next()
            elif toks[0] == ('name', 'methods'):
                self.next()
                static = False
                if len(toks) > 1:
                    if [v for _, v in toks[1:]] != ['(', 'Static', '=', 'true', ')']:
                        raise ParseError('unsupported methods attributes %r' % raw)
                    static = True
                cls['blocks'].append('static' if static else 'methods')
                while self.peek()[1] != [('name', 'end')]:
                    if self.peek()[1] is None:
                        raise ParseError('unterminated methods block')
                    f = self.function()
                    cls['static' if static else 'methods'].append(f)
                self.next()
            elif toks[0] == ('name', 'enumeration'):
                self.next()
                cls['blocks'].append('enumeration')
                while self.peek()[1] != [('name', 'end')]:
                    ln, t, raw = self.next()
                    if t is None:
                        raise ParseError('unterminated enumeration')
                    e = P(t).expr()
                    if e[0] != 'call' or e[1][0] != 'name' or len(e[2]) != 1:
                        raise ParseError('bad enumerator %r' % raw)
                    cls['enumeration'].append((e[1][1], e[2][0]))
                self.next()
            else:
                raise ParseError('unexpected line in classdef: %r' % raw)

    def function(self):
        ln, toks, raw = self.next()
        if toks[0] != ('name', 'function'):
            raise ParseError('expected function, found %r' % raw)
        # header: function [out =] name[.name](params) [, one-liner]
        depth = 0
        hdr_end = None
        for i, t in enumerate(toks):
            if t == ('op', '('):
                depth += 1
            elif t == ('op', ')'):
                depth -= 1
                if depth == 0:
                    hdr_end = i
                    break
        if hdr_end is None:
            raise ParseError('function header without parameter list: %r' % raw)
        hdr = toks[1:hdr_end + 1]
        rest = toks[hdr_end + 1:]
        out = None
        if ('op', '=') in hdr:
            j = hdr.index(('op', '='))
            out = [v for k, v in hdr[:j] if k == 'name']
            hdr = hdr[j + 1:]
        names = []
        k = 0
        while hdr[k] != ('op', '('):
            if hdr[k][0] == 'name':
                names.append(hdr[k][1])
            k += 1
        params = [v for kk, v in hdr[k + 1:-1] if kk == 'name']
        f = {'name': '.'.join(names), 'out': out or [], 'params': params, 'line': ln}
        if rest:
            # one-liner: `, stmt; end`
            if rest[0] == ('op', ','):
                rest = rest[1:]
            if rest[-1] != ('name', 'end'):
                raise ParseError('unsupported function header tail %r' % raw)
            f['body'] = [parse_stmt_tokens(s) for s in split_semis(rest[:-1])]
            return f
        f['body'] = self.block(('end',))
        self.next()  # end
        return f

    def block(self, terminators):
        stmts = []
        while True:
            ln, toks, raw = self.peek()
            if toks is None:
                raise ParseError('unterminated block')
            if len(toks) == 1 and toks[0][0] == 'name' and toks[0][1] in terminators:
                return stmts
            if toks[0][0] == 'name' and toks[0][1] in terminators and toks[0][1] in ('elseif',):
                return stmts
            if toks[0] == ('name', 'if'):
                stmts.append(self.if_())
                continue
            self.next()
            for s in split_semis(toks):
                st = parse_stmt_tokens(s)
                if st:
                    stmts.append(st + (('line', ln),) if False else st)
        return stmts

    def if_(self):
        ln, toks, raw = self.next()
        branches = []
        cond = self._cond(toks[1:], raw)
        body = self.block(('elseif', 'else', 'end'))
        branches.append((cond, body))
        els = None
        while True:
            ln, toks, raw = self.next()
            if toks[0] == ('name', 'elseif'):
                c = self._cond(toks[1:], raw)
                b = self.block(('elseif', 'else', 'end'))
                branches.append((c, b))
            elif toks == [('name', 'else')]:
                els = self.block(('end',))
            elif toks == [('name', 'end')]:
                return ('if', branches, els)
            else:
                raise ParseError('unexpected %r in if' % raw)

    def _cond(self, toks, raw):
        p = P(toks)
        e = p.expr()
        if not p.done():
            raise ParseError('trailing tokens in condition %r' % raw)
        return e


def parse_file(text, name='<m>'):
    return FileParser(text, name).parse()


# ------------------------------------------------------------------ static queries on the AST
def walk_exprs(node, fn):
    """Call fn(expr) on every expression node in a statement/expression tree."""
    if isinstance(node, tuple):
        if node and isinstance(node[0], str):
            fn(node)
        for x in node[1:] if node and isinstance(node[0], str) else node:
            walk_exprs(x, fn)
    elif isinstance(node, list):
        for x in node:
            walk_exprs(x, fn)


def conjuncts(e):
    if e[0] == 'and':
        return conjuncts(e[1]) + conjuncts(e[2])
    if e[0] == 'paren':
        return conjuncts(e[1]) if e[1][0] == 'and' else [e]
    return [e]


def guard_facts(cond):
    """Facts of a generated guard: {'count': N or None, 'count_var': 'nargin'|'varargin', 'isa': {i: cls},
    'size': {(i, dim): n}, 'other': [...]}"""
    facts = {'count': None, 'isa': {}, 'size': {}, 'other': [], 'key': False}
    for c in conjuncts(cond):
        if c[0] == 'cmp' and c[1] == '==':
            a, b = c[2], c[3]
            if a == ('name', 'nargin') and b[0] == 'num':
                facts['count'] = int(b[1])
                facts['count_var'] = 'nargin'
                continue
            if a[0] == 'call' and a[1] == ('name', 'length') and a[2] == [('name', 'varargin')] and b[0] == 'num':
                facts['count'] = int(b[1])
                facts['count_var'] = 'varargin'
                continue
            if a[0] == 'call' and a[1] == ('name', 'size') and len(a[2]) == 2 and a[2][0][0] == 'cell' and b[0] == 'num':
                idx = a[2][0][2][0]
                facts['size'][(int(idx[1]), int(a[2][1][1]))] = int(b[1])
                continue
            if a[0] == 'cell' and b[0] == 'call' and b[1] == ('name', 'uint64'):
                facts['key'] = True
                continue
        if c[0] == 'call' and c[1] == ('name', 'isa') and len(c[2]) == 2 and c[2][0][0] == 'cell' and c[2][1][0] == 'str':
            idx = c[2][0][2][0]
            facts['isa'][int(idx[1])] = c[2][1][1]
            continue
        facts['other'].append(c)
    return facts


def wrapper_calls(stmt, wrapper):
    """All calls `<wrapper>(id, ...)` inside a statement: list of (id, args, nout, out_targets)."""
    found = []

    def visit(e):
        if e[0] == 'call' and e[1] == ('name', wrapper) and e[2] and e[2][0][0] == 'num':
            found.append((int(e[2][0][1]), e[2][1:]))
    walk_exprs(stmt, visit)
    res = []
    for cid, args in found:
        nout = 0
        targets = []
        if stmt[0] == 'assign':
            nout = 1
            targets = [stmt[1]]
        elif stmt[0] == 'massign':
            nout = len(stmt[1])
            targets = stmt[1]
        res.append((cid, args, nout, targets))
    return res


# ====================================================================== interpreter
class MatlabError(Exception):
    pass


class ReturnSignal(Exception):
    pass


class U64(int):
    """uint64 scalar"""


class I32(int):
    """int32 scalar"""


class MObject:
    _next = [1]

    def __init__(self, cls):
        self.cls = cls               # dotted MATLAB class name
        self.props = {}
        self.id = MObject._next[0]
        MObject._next[0] += 1
        self.deleted = False

    def __repr__(self):
        return '<%s #%d>' % (self.cls, self.id)


class MEnum:
    def __init__(self, cls, name, value):
        self.cls, self.name, self.value = cls, name, value

    def __eq__(self, o):
        return isinstance(o, MEnum) and (self.cls, self.value) == (o.cls, o.value)

    def __hash__(self):
        return hash((self.cls, self.value))

    def __repr__(self):
        return '%s.%s' % (self.cls, self.name)


class Interp:
    """Interprets the generated toolbox.  `wrapper(name, nargout, args) -> list of outputs` performs a MEX call."""

    def __init__(self, tree, wrapper_name, wrapper):
        self.classes = {}
        self.functions = {}
        self.wrapper_name = wrapper_name
        self.wrapper = wrapper
        self.objects = {}
        for path, text in tree.items():
            if not path.endswith('.m'):
                continue
            parts = path[:-2].split('/')
            dotted = '.'.join([p[1:] for p in parts[:-1]] + [parts[-1]])
            ast = parse_file(text, path)
            if isinstance(ast, dict):
                ast['dotted'] = dotted
                self.classes[dotted] = ast
            else:
                self.functions[dotted] = ast[1]

    # ---- class helpers
    def chain(self, cls):
        out = []
        while cls and cls != 'handle' and cls in self.classes:
            out.append(cls)
            cls = self.classes[cls]['base']
        return out

    def find_method(self, cls, name, static=False):
        for c in self.chain(cls):
            for f in self.classes[c]['static' if static else 'methods']:
                if f['name'] == name:
                    return c, f
        return None, None

    def isa(self, v, name):
        if isinstance(v, bool):
            return name == 'logical'
        if isinstance(v, U64):
            return name in ('uint64', 'numeric', 'integer')
        if isinstance(v, I32):
            return name in ('int32', 'numeric', 'integer')
        if isinstance(v, (int, float)):
            return name in ('double', 'numeric', 'float')
        if isinstance(v, str):
            return name == 'char'
        if isinstance(v, list):
            return name in ('double', 'numeric', 'float')
        if isinstance(v, MObject):
            return name in self.chain(v.cls) or name == 'handle'
        if isinstance(v, MEnum):
            return name in (v.cls, 'uint32', 'numeric', 'integer')
        return False

    # ---- construction / calls
    def construct(self, cls, args):
        cd = self.classes[cls]
        if cd['base'] == 'uint32' or cd['enumeration']:
            v = args[0]
            val = int(v.value if isinstance(v, MEnum) else v)
            for n, e in cd['enumeration']:
                if int(float(e[1])) == val:
                    return MEnum(cls, n, val)
            raise MatlabError('no enumeration member of %s has value %r' % (cls, val))
        obj = MObject(cls)
        for c in reversed(self.chain(cls)):
            for p, dflt in self.classes[c]['properties']:
                obj.props[p] = float(dflt[1]) if dflt is not None and dflt[0] == 'num' else []
        self.objects[obj.id] = obj
        self.run_constructor(cls, obj, args)
        return obj

    def run_constructor(self, cls, obj, args):
        cd = self.classes[cls]
        ctor = [f for f in cd['methods'] if f['name'] == cd['name']]
        if not ctor:
            return
        f = ctor[0]
        env = {'varargin': list(args), 'nargin': len(args), 'obj': obj, '__cls__': cls}
        self.exec_block(f['body'], env, 1)

    def call_function(self, f, args, nargout, this=None, cls=None):
        env = {'nargin': len(args) + (1 if this is not None else 0), '__cls__': cls}
        params = list(f['params'])
        a = list(args)
        if this is not None:
            env[params[0]] = this
            params = params[1:]
        for p in params:
            if p == 'varargin':
                env['varargin'] = a
                a = []
            elif a:
                env[p] = a.pop(0)
        env['varargout'] = {}
        try:
            self.exec_block(f['body'], env, nargout)
        except ReturnSignal:
            pass
        outs = []
        for o in f['out']:
            if o == 'varargout':
                vo = env.get('varargout', {})
                k = 1
                while k in vo:
                    outs.append(vo[k])
                    k += 1
            elif o in env:
                outs.append(env[o])
        return outs

    def call_method(self, obj, name, args, nargout=1):
        c, f = self.find_method(obj.cls, name)
        if f is None:
            raise MatlabError('no method %s in class %s' % (name, obj.cls))
        return self.call_function(f, args, nargout, this=obj, cls=c)

    def call_static(self, cls, name, args, nargout=1):
        c, f = self.find_method(cls, name, static=True)
        if f is None:
            raise MatlabError('no static method %s in class %s' % (name, cls))
        return self.call_function(f, args, nargout, cls=c)

    def call_free(self, dotted, args, nargout=1):
        f = self.functions.get(dotted)
        if f is None:
            raise MatlabError('no function %s' % dotted)
        return self.call_function(f, args, nargout)

    def get_property(self, obj, name):
        c, f = self.find_method(obj.cls, 'get.' + name)
        if f is not None:
            outs = self.call_function(f, [], 1, this=obj, cls=c)
            return outs[0] if outs else obj.props.get(name)
        return obj.props.get(name)

    def set_property(self, obj, name, value):
        c, f = self.find_method(obj.cls, 'set.' + name)
        if f is not None:
            self.call_function(f, [value], 0, this=obj, cls=c)
            return
        obj.props[name] = value

    def delete(self, obj):
        """Handle-class destruction: delete methods from the most derived class up."""
        if obj.deleted:
            return
        obj.deleted = True
        for c in self.chain(obj.cls):
            for f in self.classes[c]['methods']:
                if f['name'] == 'delete':
                    self.call_function(f, [], 0, this=obj, cls=c)
        self.objects.pop(obj.id, None)

    # called from the MEX side (mexCallMATLAB)
    def call_matlab(self, name, args, nargout):
        if name == 'int32':
            v = args[0]
            return [I32(int(v.value if isinstance(v, MEnum) else v))]
        if name in self.classes:
            return [self.construct(name, args)]
        if name in self.functions:
            return self.call_free(name, args, nargout)
        raise MatlabError('mexCallMATLAB: unknown function or class %s' % name)

    # ---- statements
    def exec_block(self, stmts, env, nargout):
        for st in stmts:
            k = st[0]
            if k == 'if':
                done = False
                for cond, body in st[1]:
                    if self.truth(self.eval(cond, env)):
                        self.exec_block(body, env, nargout)
                        done = True
                        break
                if not done and st[2] is not None:
                    self.exec_block(st[2], env, nargout)
            elif k == 'return':
                raise ReturnSignal()
            elif k == 'assign':
                rhs = st[2]
                if rhs[0] == 'supercall':
                    obj = env[rhs[1][1]]
                    base = qname(rhs[2])
                    self.run_constructor(base, obj, [self.eval(a, env) for a in rhs[3]])
                    continue
                vals = self.eval_multi(rhs, env, 1)
                if not vals:
                    raise MatlabError('too many output arguments: %r produced no value' % (rhs,))
                self.assign(st[1], vals[0], env)
            elif k == 'massign':
                vals = self.eval_multi(st[2], env, len(st[1]))
                if len(vals) < len(st[1]):
                    raise MatlabError('too many output arguments requested (%d, got %d)' % (len(st[1]), len(vals)))
                for lv, v in zip(st[1], vals):
                    self.assign(lv, v, env)
            elif k == 'expr':
                self.eval_multi(st[1], env, 0)
            else:
                raise MatlabError('cannot execute %r' % (st,))

    def assign(self, lv, v, env):
        if lv[0] == 'name':
            env[lv[1]] = v
        elif lv[0] == 'cell' and lv[1][0] == 'name':
            idx = int(float(self.eval(lv[2][0], env)))
            env.setdefault(lv[1][1], {})[idx] = v
        elif lv[0] == 'field' and lv[1][0] == 'name':
            tgt = env.get(lv[1][1])
            if isinstance(tgt, MObject):
                tgt.props[lv[2]] = v          # inside class methods: direct property store
            else:
                env[lv[1][1]] = {lv[2]: v}    # MATLAB would create a struct (the generated set.<p> does `obj.p = value`)
        else:
            raise MatlabError('cannot assign to %r' % (lv,))

    def truth(self, v):
        return bool(v)

    def eval(self, e, env):
        vals = self.eval_multi(e, env, 1)
        if not vals:
            raise MatlabError('expression %r produced no value' % (e,))
        return vals[0]

    def eval_args(self, args, env):
        out = []
        for a in args:
            if a[0] == 'cell' and a[2] == [('colon',)]:
                v = env.get(a[1][1], [])
                out += list(v) if isinstance(v, list) else [v[k] for k in sorted(v)]
            else:
                out.append(self.eval(a, env))
        return out

    def eval_multi(self, e, env, nargout):
        k = e[0]
        if k == 'num':
            return [float(e[1])] if ('.' in e[1] or 'e' in e[1].lower()) else [float(e[1])]
        if k == 'str':
            return [e[1]]
        if k == 'paren':
            return [self.eval(e[1], env)]
        if k == 'and':
            return [self.truth(self.eval(e[1], env)) and self.truth(self.eval(e[2], env))]
        if k == 'or':
            return [self.truth(self.eval(e[1], env)) or self.truth(self.eval(e[2], env))]
        if k == 'not':
            return [not self.truth(self.eval(e[1], env))]
        if k == 'cmp':
            a, b = self.eval(e[2], env), self.eval(e[3], env)
            if e[1] == '==':
                if isinstance(a, (MObject, MEnum)) or isinstance(b, (MObject, MEnum)):
                    return [a == b]
                return [type(a) not in (str, list) and type(b) not in (str, list) and float(a) == float(b) if not (isinstance(a, str) or isinstance(b, str)) else a == b]
            if e[1] == '~=':
                return [a != b]
            raise MatlabError('comparison %s not supported' % e[1])
        if k == 'name':
            n = e[1]
            if n in env:
                return [env[n]]
            if n == 'nargin':
                return [float(env.get('nargin', 0))]
            # a function or class called without parentheses
            return self.call_named(n, [], env, nargout)
        if k == 'cell':
            base = env.get(e[1][1]) if e[1][0] == 'name' else None
            if base is None:
                raise MatlabError('cell indexing of %r' % (e[1],))
            idx = int(float(self.eval(e[2][0], env)))
            if isinstance(base, list):
                if idx < 1 or idx > len(base):
                    raise MatlabError('index exceeds the number of array elements')
                return [base[idx - 1]]
            return [base[idx]]
        if k == 'field':
            q = qname(e)
            root = e
            while root[0] == 'field':
                root = root[1]
            if root[0] == 'name' and root[1] in env:
                tgt = self.eval(e[1], env)
                if isinstance(tgt, MObject):
                    # obj.method (no parentheses) or property
                    c, f = self.find_method(tgt.cls, e[2])
                    if f is not None and e[2] not in tgt.props:
                        return self.call_function(f, [], nargout, this=tgt, cls=c)
                    if env.get('__cls__') and tgt is env.get('this', env.get('obj')):
                        return [tgt.props.get(e[2])]
                    return [self.get_property(tgt, e[2])]
                if isinstance(tgt, dict):
                    return [tgt[e[2]]]
                raise MatlabError('field access on %r' % (tgt,))
            return self.call_named(q, [], env, nargout)
        if k == 'call':
            args = self.eval_args(e[2], env)
            fn = e[1]
            q = qname(fn)
            root = fn
            while root[0] == 'field':
                root = root[1]
            if root[0] == 'name' and root[1] in env and fn[0] == 'field':
                tgt = self.eval(fn[1], env)
                if isinstance(tgt, MObject):
                    c, f = self.find_method(tgt.cls, fn[2])
                    if f is None:
                        raise MatlabError('no method %s in %s' % (fn[2], tgt.cls))
                    return self.call_function(f, args, nargout, this=tgt, cls=c)
            if fn[0] == 'name' and fn[1] in env and not callable(env[fn[1]]):
                base = env[fn[1]]        # indexing with ()
                idx = int(float(args[0]))
                return [base[idx - 1]]
            return self.call_named(q, args, env, nargout)
        raise MatlabError('cannot evaluate %r' % (e,))

    def call_named(self, q, args, env, nargout):
        if q == self.wrapper_name:
            return self.wrapper(q, nargout, args)
        if q == 'isa':
            return [self.isa(args[0], args[1])]
        if q == 'strcmp':
            return [isinstance(args[0], str) and args[0] == args[1]]
        if q == 'length':
            return [float(len(args[0]))]
        if q == 'size':
            v = args[0]
            dims = (1.0, 1.0)
            if isinstance(v, list):
                dims = (float(len(v)), 1.0) if not v or not isinstance(v[0], list) else (float(len(v)), float(len(v[0])))
            elif isinstance(v, str):
                dims = (1.0 if v else 0.0, float(len(v)))
            return [dims[int(float(args[1])) - 1]] if len(args) > 1 else [list(dims)]
        if q == 'uint64':
            return [U64(int(args[0]))]
        if q == 'int32':
            return [I32(int(args[0]))]
        if q == 'double':
            return [float(args[0])]
        if q == 'error':
            raise MatlabError(str(args[0]) if args else 'error')
        if q in self.classes:
            return [self.construct(q, args)]
        if q in self.functions:
            return self.call_free(q, args, nargout)
        # Class.StaticMethod or Enum member
        if '.' in q:
            cls, _, member = q.rpartition('.')
            if cls in self.classes:
                cd = self.classes[cls]
                for n, ev in cd['enumeration']:
                    if n == member:
                        return [MEnum(cls, n, int(float(ev[1])))]
                return self.call_static(cls, member, args, nargout)
        raise MatlabError('undefined function or variable %s' % q)
