"""C++ harness: mock library generated from a dialect spec, pybind11 build helpers.

The mock library "declares the interface's entities as written" and records every call as
    <qualified entity><explicit template args>@<this oid>(<arg reprs>)-><result repr>
in a global trace that the test module exposes to Python (`_trace`, `_clear`).
"""
import os
import subprocess
import sysconfig

from vf import dialect as D
from vf import refinst as R

PYINC = sysconfig.get_paths()['include']
EXT = sysconfig.get_config_var('EXT_SUFFIX') or '.so'

PRELUDE = r'''
#pragma once
#include <string>
#include <vector>
#include <map>
#include <memory>
#include <sstream>
#include <type_traits>
#include <utility>
using std::string;
namespace vf {
inline std::vector<std::string>& trace() { static std::vector<std::string> t; return t; }
inline int& next_oid() { static int n = 100; return n; }
struct Quiet {};   // tag: construct a library object without recording a call
struct Obj {
  int oid_;
  Obj() : oid_(++next_oid()) {}
  Obj(const Obj& o) : oid_(o.oid_) {}
  Obj& operator=(const Obj& o) { oid_ = o.oid_; return *this; }
};
// default value of any library type, constructed without recording a call
template <typename T, typename = void> struct Make { static T get() { return T(); } };
template <typename T> struct Make<T, typename std::enable_if<std::is_base_of<Obj, T>::value>::type> { static T get() { return T(Quiet()); } };
template <typename T> std::string tn() {
  std::string p = __PRETTY_FUNCTION__;
  auto a = p.find("T = ") + 4;
  auto b = p.find_first_of(";]", a);
  std::string s = p.substr(a, b - a);
  // g++ spells "unsigned char" etc. as written; drop spaces after commas for a canonical form
  std::string o; for (size_t i = 0; i < s.size(); ++i) { if (s[i] == ' ' && i && s[i-1] == ',') continue; o += s[i]; }
  const std::string long_name = "std::__cxx11::basic_string<char>";
  for (size_t p = o.find(long_name); p != std::string::npos; p = o.find(long_name)) o.replace(p, long_name.size(), "std::string");
  const std::string al = ",std::allocator<";
  for (size_t p = o.find(al); p != std::string::npos; p = o.find(al)) {
    size_t q = p + al.size(); int depth = 1;
    while (q < o.size() && depth) { if (o[q] == '<') ++depth; else if (o[q] == '>') --depth; ++q; }
    while (q < o.size() && o[q] == ' ') ++q;
    o.erase(p, q - p);
  }
  return o;
}
inline std::string repr(int v) { return std::to_string(v); }
inline std::string repr(long v) { return std::to_string(v); }
inline std::string repr(size_t v) { return std::to_string(v); }
inline std::string repr(bool v) { return v ? "true" : "false"; }
inline std::string repr(char v) { return "c:" + std::to_string((int)(unsigned char)v); }
inline std::string repr(unsigned char v) { return "uc:" + std::to_string((int)v); }
inline std::string repr(double v) { std::ostringstream o; o.precision(17); o << v; return o.str(); }
inline std::string repr(float v) { std::ostringstream o; o.precision(9); o << v; return o.str(); }
inline std::string repr(const std::string& v) { return "s:" + v; }
inline std::string repr(const char* v) { return std::string("s:") + v; }
template <typename T, typename std::enable_if<std::is_enum<T>::value, int>::type = 0>
std::string repr(T v) { return "e:" + std::to_string((int)v); }
template <typename T, typename std::enable_if<std::is_base_of<Obj, T>::value, int>::type = 0>
std::string repr(const T& v) { return "#" + std::to_string(v.oid_); }
template <typename T> std::string repr(const std::shared_ptr<T>& v) { return v ? repr(*v) : std::string("null"); }
template <typename T, typename std::enable_if<std::is_base_of<Obj, T>::value, int>::type = 0>
std::string repr(T* v) { return v ? repr(*v) : std::string("null"); }
template <typename T> std::string repr(const std::vector<T>& v) {
  std::string s = "["; for (size_t i = 0; i < v.size(); ++i) { if (i) s += ","; s += repr(v[i]); } return s + "]"; }
template <typename K, typename V> std::string repr(const std::map<K, V>& v) { return "{map:" + std::to_string(v.size()) + "}"; }
template <typename A, typename B> std::string repr(const std::pair<A, B>& v) { return "(" + repr(v.first) + "," + repr(v.second) + ")"; }
inline std::string join(const std::vector<std::string>& a) { std::string s; for (size_t i = 0; i < a.size(); ++i) { if (i) s += ","; s += a[i]; } return s; }
inline void rec(const std::string& name, int self, const std::vector<std::string>& args) {
  trace().push_back(name + (self ? "@" + std::to_string(self) : std::string()) + "(" + join(args) + ")->void"); }
template <typename V> V ret(const std::string& name, int self, const std::vector<std::string>& args, V v) {
  trace().push_back(name + (self ? "@" + std::to_string(self) : std::string()) + "(" + join(args) + ")->" + repr(v)); return v; }
}  // namespace vf
'''

MODULE_TEMPLATE = '''#include "pch.h"
{includes}
{boost_class_export}
using namespace std;
namespace py = pybind11;
{submodules}
{module_def} {{
    m_.doc() = "pybind11 wrapper of {module_name}";
{submodules_init}
    m_.def("_trace", [](){{ return vf::trace(); }});
    m_.def("_clear", [](){{ vf::trace().clear(); }});
{wrapped_namespace}
}}
'''

PCH = '''#include <pybind11/pybind11.h>
#include <pybind11/stl.h>
#include <pybind11/operators.h>
#include <pybind11/iostream.h>
#include <pybind11/functional.h>
#include <string>
#include <vector>
#include <map>
#include <memory>
#include <algorithm>
'''

STUBS = '''
// stand-ins for the gtsam facilities the generator's special cases refer to
namespace gtsam {
template <typename T> std::string serialize(const T&) { return "ser"; }
template <typename T> void deserialize(const std::string&, T&) {}
struct RedirectCout { std::string str() const { return "printed"; } };
}
'''


# ------------------------------------------------------------------ type mapping
def cpp_type(t, this=None, tparams=()):
    """C++ spelling of an interface type inside the mock library."""
    q = t['q']
    parts = q.split('::')
    if 'This' in parts and this:
        i = parts.index('This')
        # `This` / `ns::This::Sub`: the enclosing (instantiated) class, whatever qualification precedes it
        rest = parts[i + 1:]
        q = '::'.join([this] + rest)
        if rest and tparams:
            q = 'typename ' + q
    elif '::' in q and parts[0] in tparams:
        q = 'typename ' + q
    if q == 'string':
        q = 'std::string'
    if t['t'] is not None:
        q += '<' + ', '.join(cpp_type(p, this, tparams) for p in t['t']) + '>'
    m = t.get('m', '')
    if m == '*':
        q = 'std::shared_ptr<%s>' % q
    elif m == '@':
        q += '*'
    elif m == '&':
        q += '&'
    return ('const ' if t.get('c') else '') + q


def ret_type(r, this, tparams):
    if r['k'] == 'single':
        return cpp_type(r['t'], this, tparams)
    return 'std::pair<%s, %s>' % (cpp_type(r['t1'], this, tparams), cpp_type(r['t2'], this, tparams))


class MockGen:
    def __init__(self, module, enum_values=True):
        self.module = module
        self.eid = 0
        self.entities = {}      # entity name template -> id
        self.enums = {}         # qualified enum -> {enumerator: value}
        self.enum_values = enum_values
        self.classes = {}       # qualified class name -> spec
        self.td_targets = {}    # leaf name of typedef targets -> number of template arguments

        def walk(c):
            for d in c:
                if d['k'] == 'ns':
                    walk(d['c'])
                elif d['k'] == 'typedef':
                    self.td_targets[d['t']['q'].split('::')[-1]] = len(d['t']['t'])
        walk(module)

    # value returned by entity E for a return type
    def value_expr(self, t, E, this, tparams):
        q = t['q']
        m = t.get('m', '')
        ct = cpp_type(dict(t, c=0, m=''), this, tparams)
        if t['t'] is not None and q in ('std::vector', 'vector'):
            inner = self.value_expr(t['t'][0], E, this, tparams)
            v = '%s{%s}' % (ct, inner)
        elif q == 'void':
            return None
        elif q in ('int', 'size_t', 'float'):
            v = '(%s)%d' % (ct, E)
        elif q == 'double':
            v = '%d.5' % E
        elif q == 'bool':
            v = 'true'
        elif q == 'char':
            v = "(char)%d" % (97 + E % 26)
        elif q == 'unsigned char':
            v = "(unsigned char)%d" % (E % 200 + 1)
        elif q == 'string':
            v = 'std::string("r%d")' % E
        elif self._is_enum(q, this):
            v = '(%s)%d' % (ct, 9)
        else:
            v = 'vf::Make<%s>::get()' % ct
        if m == '*':
            return 'std::make_shared<%s>(%s)' % (ct, v)
        if m == '@':
            return 'new %s(%s)' % (ct, v)
        return v

    def _is_enum(self, q, this):
        leaf = q.split('::')[-1]
        return any(k.split('::')[-1] == leaf for k in self.enums)

    def body(self, name_expr, self_expr, args, r, this, tparams):
        self.eid += 1
        E = self.eid
        argv = '{' + ', '.join('vf::repr(%s)' % a['n'] for a in args) + '}'
        if r is None:
            return '{ vf::rec(%s, %s, %s); }' % (name_expr, self_expr, argv), E
        if r['k'] == 'single':
            v = self.value_expr(r['t'], E, this, tparams)
            if v is None:
                return '{ vf::rec(%s, %s, %s); }' % (name_expr, self_expr, argv), E
            if r['t'].get('m') == '&':
                # returning a reference: to a function-local static
                ct = cpp_type(dict(r['t'], c=0, m=''), this, tparams)
                return '{ static %s sv = %s; vf::ret(%s, %s, %s, sv); return sv; }' % (ct, v, name_expr, self_expr, argv), E
            return '{ return vf::ret(%s, %s, %s, %s); }' % (name_expr, self_expr, argv, v), E
        v1 = self.value_expr(r['t1'], E, this, tparams)
        v2 = self.value_expr(r['t2'], E + 5000, this, tparams)
        rt = ret_type(r, this, tparams)
        return '{ return vf::ret(%s, %s, %s, %s(%s, %s)); }' % (name_expr, self_expr, argv, rt, v1, v2), E

    def params(self, args, this, tparams):
        return ', '.join('%s %s' % (cpp_type(a['t'], this, tparams), a['n']) for a in args)

    def tpl_head(self, tpl):
        if not tpl:
            return ''
        return 'template <%s> ' % ', '.join('typename %s' % p['n'] for p in tpl)

    def targs_expr(self, names):
        """C++ expression (string concat) spelling <T1,T2> at run time."""
        if not names:
            return ''
        parts = ' + "," + '.join('vf::tn<%s>()' % n for n in names)
        return ' + "<" + %s + ">"' % parts

    def gen_enum(self, d, qual, ind):
        vals = {}
        items = []
        for i, e in enumerate(d['e']):
            v = 5 + 4 * i if self.enum_values else i
            vals[e] = v
            items.append('%s = %d' % (e, v))
        self.enums[qual + '::' + d['n'] if qual else d['n']] = vals
        return '%s%s %s { %s };\n' % (ind, d.get('kw', 'enum'), d['n'], ', '.join(items))

    def gen_class(self, d, path, ind):
        qual = '::'.join(path + [d['n']])
        self.classes[qual] = d
        ctp = [p['n'] for p in (d['tpl'] or [])]
        this = d['n'] + ('<' + ', '.join(ctp) + '>' if ctp else '')
        cname = 'std::string("%s")' % qual + self.targs_expr(ctp)
        out = ind + self.tpl_head(d['tpl'])
        bases = ['public vf::Obj'] if d['b'] is None else ['public ' + cpp_type(d['b'], this, ctp)]
        out += 'class %s : %s {\n%s public:\n' % (d['n'], ', '.join(bases), ind)
        i2 = ind + '  '
        # enums first: members refer to them
        for m in d['m']:
            if m['k'] == 'enum':
                out += self.gen_enum(m, qual, i2)
        has_default = False
        for m in d['m']:
            k = m['k']
            mtp = [p['n'] for p in (m.get('tpl') or [])]
            tps = ctp + mtp
            if k == 'ctor':
                if not m['a'] and not mtp:
                    has_default = True
                nm = cname + ' + "::%s"' % d['n'] + self.targs_expr(mtp)
                b, E = self.body(nm, '0', m['a'], None, this, tps)
                out += '%s%s%s(%s) %s\n' % (i2, self.tpl_head(m.get('tpl')), d['n'], self.params(m['a'], this, tps), b)
            elif k == 'method' and m['n'] == 'objId':
                # the harness's own accessor: not recorded in the trace
                out += '%sint objId() const { return this->oid_; }\n' % i2
            elif k in ('method', 'static'):
                nm = cname + ' + "::%s"' % m['n'] + self.targs_expr(mtp)
                b, E = self.body(nm, 'this->oid_' if k == 'method' else '0', m['a'], m['r'], this, tps)
                out += '%s%s%s%s %s(%s)%s %s\n' % (i2, self.tpl_head(m.get('tpl')), 'static ' if k == 'static' else '',
                                                  ret_type(m['r'], this, tps), m['n'], self.params(m['a'], this, tps),
                                                  ' const' if k == 'method' and m['c'] else '', b)
            elif k == 'prop':
                t = m['t']
                init = ''
                if t.get('c'):
                    v = self.value_expr(dict(t, c=0), 77, this, ctp)
                    init = ' = %s' % v
                out += '%s%s %s%s;\n' % (i2, cpp_type(t, this, ctp), m['n'], init)
            elif k == 'op':
                nm = cname + ' + "::operator%s"' % m['o']
                b, E = self.body(nm, 'this->oid_', m['a'], m['r'], this, ctp)
                out += '%s%s operator%s(%s)%s %s\n' % (i2, ret_type(m['r'], this, ctp), m['o'],
                                                     self.params(m['a'], this, ctp), ' const' if m['c'] else '', b)
            elif k == 'dunder':
                pass
        if any(m['k'] == 'dunder' for m in d['m']):
            out += '%sstd::vector<int> items_{1, 2, 3};\n%sstd::vector<int>::const_iterator begin() const { return items_.begin(); }\n' \
                   '%sstd::vector<int>::const_iterator end() const { return items_.end(); }\n' % (i2, i2, i2)
        if not has_default and not any(m['k'] == 'ctor' and not m['a'] for m in d['m']):
            out += '%s%s() {}\n' % (i2, d['n'])
        out += '%sexplicit %s(vf::Quiet) {}\n' % (i2, d['n'])
        if d['v']:
            out += '%svirtual ~%s() {}\n' % (i2, d['n'])
        out += ind + '};\n'
        return out

    def gen_scope(self, content, path, ind=''):
        out = ''
        for d in content:
            k = d['k']
            if k == 'ns':
                out += '%snamespace %s {\n%s%s}\n' % (ind, d['n'], self.gen_scope(d['c'], path + [d['n']], ind), ind)
            elif k == 'class':
                out += self.gen_class(d, path, ind)
            elif k == 'enum':
                out += self.gen_enum(d, '::'.join(path), ind)
            elif k == 'fwd':
                if '::' not in d['q']:
                    n = self.td_targets.get(d['q'])
                    head = 'template <%s> ' % ', '.join('typename T%d' % i for i in range(n)) if n else ''
                    out += '%s%sclass %s : public vf::Obj { public: %s() {} explicit %s(vf::Quiet) {} };\n' % (ind, head, d['q'], d['q'], d['q'])
            elif k == 'func':
                tps = [p['n'] for p in (d['tpl'] or [])]
                nm = 'std::string("%s")' % '::'.join(path + [d['n']]) + self.targs_expr(tps)
                b, E = self.body(nm, '0', d['a'], d['r'], None, tps)
                out += '%s%sinline %s %s(%s) %s\n' % (ind, self.tpl_head(d['tpl']), ret_type(d['r'], None, tps), d['n'],
                                                     self.params(d['a'], None, tps), b)
            elif k == 'var':
                t = d['t']
                init = d['d'] if d['d'] is not None else {'int': '7', 'double': '2.5', 'string': '"v"', 'bool': 'true',
                                                          'size_t': '3'}.get(t['q'], '%s()' % cpp_type(dict(t, c=0)))
                out += '%sstatic %s %s = %s;\n' % (ind, cpp_type(t), d['n'], init)
        return out

    def generate(self):
        body = self.gen_scope(self.module, [])
        return PRELUDE + STUBS + body


def mock_header(module):
    g = MockGen(module)
    return g.generate(), g


# ------------------------------------------------------------------ build helpers
class Builder:
    """Per-run build directory with a precompiled pybind11 header built from /repo's current tree."""

    def __init__(self, workdir):
        from vf import core
        self.dir = workdir
        self.inc = os.path.join(core.REPO, 'pybind11', 'include')
        os.makedirs(workdir, exist_ok=True)
        self.flags = ['-std=c++17', '-O0', '-fPIC', '-w', '-I' + self.inc, '-I' + PYINC]

    def build_pch(self):
        p = os.path.join(self.dir, 'pch.h')
        with open(p, 'w') as f:
            f.write(PCH)
        r = subprocess.run(['g++'] + self.flags + ['-x', 'c++-header', p, '-o', p + '.gch'],
                           capture_output=True, text=True)
        if r.returncode != 0:
            raise RuntimeError('cannot build precompiled header: ' + r.stderr[:2000])
        bdir = os.path.join(self.dir, 'boost', 'serialization')
        os.makedirs(bdir, exist_ok=True)
        with open(os.path.join(bdir, 'export.hpp'), 'w') as f:
            f.write('#pragma once\n#ifndef BOOST_CLASS_EXPORT\n'
                    '// stand-in: the argument must be one identifier-like token sequence naming a complete type\n'
                    '#define BOOST_CLASS_EXPORT(x) static_assert(sizeof(x) > 0, "BOOST_CLASS_EXPORT needs a complete type");\n#endif\n')

    def unit_dir(self, name):
        d = os.path.join(self.dir, name)
        os.makedirs(d, exist_ok=True)
        return d

    def check_mock(self, udir, name='mock.h'):
        """The mock library must be valid C++ on its own; otherwise the harness (not wrap) is at fault."""
        p = os.path.join(udir, 'mockcheck.cpp')
        with open(p, 'w') as f:
            f.write('#include "%s"\nint main() { return 0; }\n' % name)
        r = subprocess.run(['g++', '-std=c++17', '-w', '-fsyntax-only', '-I' + udir, p], capture_output=True, text=True)
        if r.returncode != 0:
            raise RuntimeError('generated mock library does not compile (harness defect):\n' + '\n'.join(first_errors(r.stderr, 5)))

    def syntax_check(self, udir, cpp_name='tu.cpp', compiler='g++'):
        flags = list(self.flags)
        if compiler != 'g++':
            flags = [f for f in flags]
        r = subprocess.run([compiler] + flags + ['-fsyntax-only', '-I' + self.dir, '-I' + udir,
                                                 os.path.join(udir, cpp_name)], capture_output=True, text=True)
        return r.returncode, r.stderr

    def build_module(self, udir, modname, cpp_names=('tu.cpp',)):
        out = os.path.join(udir, modname + EXT)
        r = subprocess.run(['g++'] + self.flags + ['-shared', '-I' + self.dir, '-I' + udir] +
                           [os.path.join(udir, c) for c in cpp_names] + ['-o', out], capture_output=True, text=True)
        return r.returncode, r.stderr, out


def first_errors(stderr, n=3):
    out = []
    for line in stderr.split('\n'):
        if ' error: ' in line or 'error:' in line:
            out.append(line.strip()[:300])
            if len(out) >= n:
                break
    return out
