"""Reference semantics of template instantiation (C02 / C08 / C13), written from DOCS.md and the
property statements.  Works on dialect specs (vf.dialect); shares no code with gtwrap.

expected_instances(module) -> canonical list per scope of instantiated declarations with every type
spelled in C++ (`cpp()` rules: '*' -> std::shared_ptr<>, '@' -> raw pointer, '&', const).
observe_instances(text)    -> the same shape read off gtwrap.template_instantiator's result.
"""
import itertools
import re

from vf import dialect as D


def cap(name):
    return name[:1].upper() + name[1:]


def inst_name(t):
    """Instantiated (identifier) name of a concrete typename: Name + nested argument names, no namespaces."""
    n = t['q'].split('::')[-1]
    for p in (t['t'] or []):
        n += inst_name(p)
    return n


def tn_cpp(t):
    """C++ spelling of a qualifier-free typename."""
    s = t['q']
    if t['t'] is not None:
        s += '<' + ', '.join(tn_cpp(p) for p in t['t']) + '>'
    return s


def subst(t, env, this):
    """Capture-free substitution.  env: param name -> concrete typename spec; this: spec of the
    instantiated class (qualified, with template args) or None."""
    parts = t['q'].split('::')
    targs = None if t['t'] is None else [subst(p, env, this) for p in t['t']]
    head = parts[0]
    repl = None
    if head in env:
        repl = env[head]
    elif head == 'This' and this is not None:
        repl = this
    elif this is not None and 'This' in parts[1:] and parts[:parts.index('This')] == this['q'].split('::')[:-1]:
        # the documented qualified spelling ns::This::X: the class's own namespaces in front of This
        parts = parts[parts.index('This'):]
        repl = this
    if repl is None:
        return {'c': t['c'], 'q': t['q'], 'm': t['m'], 't': targs}
    if len(parts) == 1:
        # exact occurrence: the concrete type with the occurrence's qualifiers
        if targs is not None:
            # a parameter used as a template head (T<int>) is outside the dialect; keep args
            return {'c': t['c'], 'q': repl['q'], 'm': t['m'], 't': targs}
        return {'c': t['c'], 'q': repl['q'], 'm': t['m'],
                't': None if repl['t'] is None else [dict(c=0, m='', **_tn(p)) for p in repl['t']]}
    # scoped use T::Value -> <concrete>::Value
    return {'c': t['c'], 'q': tn_cpp(repl) + '::' + '::'.join(parts[1:]), 'm': t['m'], 't': targs, 'scoped': 1}


def _tn(p):
    return {'q': p['q'], 't': None if p['t'] is None else [dict(c=0, m='', **_tn(x)) for x in p['t']]}


def cpp(t):
    return D.cpp(t)


def norm(s):
    """Whitespace-insensitive comparison form of a C++ type spelling."""
    s = re.sub(r'\s+', ' ', str(s).strip())
    s = re.sub(r'\s*([<>,:*&])\s*', r'\1', s)
    return s


def _ret(r, env, this):
    if r['k'] == 'single':
        return [norm(cpp(subst(r['t'], env, this)))]
    return [norm(cpp(subst(r['t1'], env, this))), norm(cpp(subst(r['t2'], env, this)))]


def _args(a, env, this):
    return [{'t': norm(cpp(subst(x['t'], env, this))), 'n': x['n'], 'd': x['d']} for x in a]


def _products(tpl):
    """All instantiation tuples of a template header, first parameter slowest; [] if any list is missing."""
    lists = [p['i'] or [] for p in tpl]
    return [list(c) for c in itertools.product(*lists)]


def _member_insts(members, kind, env, this, cname):
    out = []
    for m in members:
        if m['k'] != kind:
            continue
        combos = [[]]
        names = []
        if m.get('tpl'):
            combos = _products(m['tpl'])
            names = [p['n'] for p in m['tpl']]
        for combo in combos:
            e = dict(env)
            e.update(dict(zip(names, combo)))
            suffix = ''.join(cap(inst_name(c)) for c in combo)
            rec = {'a': _args(m['a'], e, this)}
            if kind == 'ctor':
                rec['n'] = cname
            else:
                rec['n'] = m['n'] + suffix
                rec['r'] = _ret(m['r'], e, this)
                rec['call'] = norm(m['n'] + ('<' + ','.join(tn_cpp(c) for c in combo) + '>' if m.get('tpl') else ''))
            if kind == 'method':
                rec['c'] = int(bool(m['c']))
            out.append(rec)
    return out


def class_instance(d, path, combo, new_name=None):
    tpl = d['tpl'] or []
    env = dict(zip([p['n'] for p in tpl], combo))
    name = new_name or d['n'] + ''.join(cap(inst_name(c)) for c in combo)
    q = '::'.join(path + [d['n']])
    this = {'q': q, 't': [dict(c=0, m='', **_tn(c)) for c in combo] if tpl else None}
    rec = {'k': 'class', 'n': name, 'cpp': norm(tn_cpp(this)), 'v': int(bool(d['v']))}
    b = d['b']
    if b is None:
        rec['b'] = None
    elif b['t'] is None:
        rec['b'] = norm(b['q'])
    else:
        rec['b'] = norm(tn_cpp(subst(b, env, this)))
    rec['ctor'] = _member_insts(d['m'], 'ctor', env, this, name)
    rec['method'] = _member_insts(d['m'], 'method', env, this, name)
    rec['static'] = _member_insts(d['m'], 'static', env, this, name)
    rec['prop'] = [{'t': norm(cpp(subst(m['t'], env, this))), 'n': m['n'], 'd': m['d']}
                   for m in d['m'] if m['k'] == 'prop']
    rec['op'] = [{'o': m['o'], 'r': _ret(m['r'], env, this), 'a': _args(m['a'], env, this), 'c': int(bool(m['c']))}
                 for m in d['m'] if m['k'] == 'op']
    rec['enum'] = [m['n'] for m in d['m'] if m['k'] == 'enum']
    rec['enum_full'] = [{'n': m['n'], 'e': list(m['e'])} for m in d['m'] if m['k'] == 'enum']
    rec['dunder'] = [m['n'] for m in d['m'] if m['k'] == 'dunder']
    rec['dunder_args'] = [{'n': m['n'], 'a': _args(m['a'], env, this)} for m in d['m'] if m['k'] == 'dunder']
    return rec


def func_instance(d, path, combo, new_name=None):
    tpl = d['tpl'] or []
    env = dict(zip([p['n'] for p in tpl], combo))
    name = new_name or d['n'] + ''.join(cap(inst_name(c)) for c in combo)
    return {'k': 'func', 'n': name, 'r': _ret(d['r'], env, None), 'a': _args(d['a'], env, None),
            'call': norm(d['n'] + ('<' + ','.join(tn_cpp(c) for c in combo) + '>' if tpl else ''))}


def _find(module, qname_parts, path=()):
    """All classes / functions / forward declarations named by a (possibly qualified) name, from the top."""
    res = []
    if len(qname_parts) == 1:
        for d in module:
            if d['k'] in ('class', 'func') and d['n'] == qname_parts[0]:
                res.append((d, list(path)))
            if d['k'] == 'fwd' and d['q'].split('::')[-1] == qname_parts[0]:
                res.append((d, list(path)))
        return res
    for d in module:
        if d['k'] == 'ns' and d['n'] == qname_parts[0]:
            res += _find(d['c'], qname_parts[1:], tuple(path) + (d['n'],))
    return res


def expected_scope(content, path, top):
    """-> {'c': [instantiated content in order], 'td': [typedef'd instantiations (position free)]}"""
    out, tds = [], []
    for d in content:
        k = d['k']
        if k == 'class':
            if not d['tpl']:
                out.append(class_instance(d, path, []))
            else:
                for combo in _products(d['tpl']):
                    out.append(class_instance(d, path, combo))
        elif k == 'func':
            if not d['tpl']:
                out.append(func_instance(d, path, []))
            else:
                for combo in _products(d['tpl']):
                    out.append(func_instance(d, path, combo))
        elif k == 'typedef':
            found = _find(top, d['t']['q'].split('::'))
            if len(found) == 1:
                tgt, tpath = found[0]
                combo = [dict(_tn(p)) for p in d['t']['t']]
                if tgt['k'] == 'class':
                    tds.append(class_instance(tgt, tpath, combo, d['n']))
                elif tgt['k'] == 'func':
                    tds.append(func_instance(tgt, tpath, combo, d['n']))
                else:
                    tds.append({'k': 'decl', 'n': d['n'],
                                'cpp': norm('::'.join(tpath + [tgt['q'].split('::')[-1]]) + '<' +
                                            ','.join(tn_cpp(c) for c in combo) + '>')})
            else:
                tds.append({'k': 'typedef_unresolved', 'n': d['n'], 'found': len(found)})
        elif k == 'ns':
            sub = expected_scope(d['c'], path + [d['n']], top)
            out.append({'k': 'ns', 'n': d['n'], 'c': sub['c'], 'td': sub['td']})
        elif k == 'include':
            out.append({'k': 'include', 'h': d['h']})
        elif k == 'fwd':
            out.append({'k': 'fwd', 'q': d['q']})
        elif k == 'enum':
            out.append({'k': 'enum', 'n': d['n'], 'e': list(d['e'])})
        elif k == 'var':
            out.append({'k': 'var', 'n': d['n'], 't': norm(cpp(d['t'])), 'd': d['d']})
    return {'c': out, 'td': tds}


def expected_instances(module):
    return expected_scope(module, [], module)


def compare_scope(want, got, path='', out=None):
    """Compare an expected scope with an observed content list.  Typedef'd instantiations are matched by
    name wherever they were placed; everything else must match in order.  Returns list of diff strings."""
    if out is None:
        out = []
    td_names = {(t['k'], t['n']) for t in want['td']}
    rest, tds = [], {}
    for g in got:
        key = (g['k'], g.get('n'))
        if key in td_names and key not in tds and not _in_order_candidate(g, want['c']):
            tds[key] = g
        else:
            rest.append(g)
    for t in want['td']:
        g = tds.get((t['k'], t['n']))
        if g is None:
            out.append('%s.td[%s]: expected one typedef instantiation named %s, observed none' % (path, t['k'], t['n']))
        else:
            out += D.diff_all(t, g, '%s.td' % path)
    want_order = [(t['k'], t['n']) for t in want['td'] if (t['k'], t['n']) in tds]
    if list(tds) != want_order:
        out.append('%s.td-order: typedef\'d instantiations expected in the order of their typedefs %r, observed %r'
                   % (path, [n for _, n in want_order], [n for _, n in tds]))
    wc = want['c']
    if [(_k(x)) for x in wc] != [(_k(x)) for x in rest]:
        out.append('%s.c: expected instantiations %r, observed %r' % (path, [_k(x)[1] for x in wc], [_k(x)[1] for x in rest]))
        return out
    for i, (w, g) in enumerate(zip(wc, rest)):
        if w['k'] == 'ns':
            compare_scope(w, g['c'], '%s/%s' % (path, w['n']), out)
        else:
            out += D.diff_all(w, g, '%s.c[%d]' % (path, i))
    return out


def _k(x):
    return (x['k'], x.get('n', x.get('h', x.get('q'))))


def _in_order_candidate(g, wc):
    return any(_k(w) == _k(g) for w in wc)


# ------------------------------------------------------------------ observer
def _o_ret(r):
    out = [norm(r.type1.to_cpp())]
    if r.type2:
        out.append(norm(r.type2.to_cpp()))
    elif out[0].startswith(('pair<', 'std::pair<')) and False:
        pass
    return out


def _o_args(a):
    return [{'t': norm(x.ctype.to_cpp()), 'n': x.name, 'd': None if x.default is None else str(x.default)}
            for x in a.list()]


def observe_scope(ns):
    import gtwrap.interface_parser as ip
    import gtwrap.template_instantiator as ti
    out = []
    for d in ns.content:
        if isinstance(d, ti.InstantiatedClass):
            b = d.parent_class
            rec = {'k': 'class', 'n': d.name, 'cpp': norm(d.to_cpp()), 'v': int(bool(d.is_virtual)),
                   'b': norm(b.to_cpp() if hasattr(b, 'to_cpp') else b) if b else None}
            rec['ctor'] = [{'a': _o_args(m.args), 'n': m.name} for m in d.ctors]
            rec['method'] = [{'a': _o_args(m.args), 'n': m.name, 'r': _o_ret(m.return_type),
                              'call': norm(m.to_cpp()), 'c': int(bool(m.is_const))} for m in d.methods]
            rec['static'] = [{'a': _o_args(m.args), 'n': m.name, 'r': _o_ret(m.return_type),
                              'call': norm(m.to_cpp())} for m in d.static_methods]
            rec['prop'] = [{'t': norm(m.ctype.to_cpp()), 'n': m.name,
                            'd': None if m.default is None else str(m.default)} for m in d.properties]
            rec['op'] = [{'o': m.operator, 'r': _o_ret(m.return_type), 'a': _o_args(m.args),
                          'c': int(bool(m.is_const))} for m in d.operators]
            rec['enum'] = [e.name for e in d.enums]
            rec['enum_full'] = [{'n': e.name, 'e': [x.name for x in e.enumerators]} for e in d.enums]
            rec['dunder'] = [m.name for m in d.dunder_methods]
            rec['dunder_args'] = [{'n': m.name, 'a': _o_args(m.args)} for m in d.dunder_methods]
            out.append(rec)
        elif isinstance(d, ti.InstantiatedGlobalFunction):
            out.append({'k': 'func', 'n': d.name, 'r': _o_ret(d.return_type), 'a': _o_args(d.args),
                        'call': norm(d.to_cpp())})
        elif isinstance(d, ti.InstantiatedDeclaration):
            out.append({'k': 'decl', 'n': d.name, 'cpp': norm(d.to_cpp())})
        elif isinstance(d, ip.Namespace):
            out.append({'k': 'ns', 'n': d.name, 'c': observe_scope(d)})
        elif isinstance(d, ip.Include):
            out.append({'k': 'include', 'h': str(d.header)})
        elif isinstance(d, ip.ForwardDeclaration):
            out.append({'k': 'fwd', 'q': '::'.join(list(d.typename.namespaces) + [d.typename.name])})
        elif isinstance(d, ip.Enum):
            out.append({'k': 'enum', 'n': d.name, 'e': [e.name for e in d.enumerators]})
        elif isinstance(d, ip.Variable):
            out.append({'k': 'var', 'n': d.name, 't': norm(d.ctype.to_cpp()),
                        'd': None if d.default is None else str(d.default)})
        else:
            out.append({'k': 'unknown', 'repr': repr(d)[:80]})
    return out


def observe_instances(text):
    import gtwrap.interface_parser as ip
    import gtwrap.template_instantiator as ti
    m = ti.instantiate_namespace(ip.Module.parseString(text))
    return observe_scope(m)


