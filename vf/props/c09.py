"""C09 — generated pybind11 code compiles against any conforming C++ library (exploration on compiled programs).

A family of interface constructs (each a small set of declarations plus the library types it needs) is enumerated
completely, alone and in ordered pairs, under several top-namespace / ignore / serialization settings.  For each
the real generator output is compiled (g++ -std=c++17 -fsyntax-only, which instantiates the pybind11 templates)
against a machine-generated mock library that declares the interface's entities as written (vf/cxx.py).  Lexical
checks that need no compiler (lambda parameter count == py::arg count, balanced brackets, no left-over template
parameter) run on every output as well.
"""
import itertools
import os
import re
import shutil

from vf import cxx, dialect as D, gen
from vf.dialect import T, arg, single, pair

ID = 'C09'
LEVEL = 'exploration'
ASSUMPTIONS = [
    'the mock library generator (vf/cxx.py) declares each entity exactly as the interface states it',
    'g++ 12 -fsyntax-only with a precompiled pybind11 header built from /repo/pybind11; clang++ is used additionally in the thorough tier',
    'Eigen / Boost types are not available in the image and are not part of the alphabet',
]

SUPPORT = [D.cls('GBase', [D.ctor('GBase'), D.method(single(T('int')), 'g', [], 1)], v=1),
           D.cls('GBox', [D.ctor('GBox')], tpl=[D.tparam('T', [T('double')])], v=1),
           D.ns('ns', [D.cls('Pose', [D.ctor('Pose'), D.method(single(T('int')), 'objId', [], 1)]),
                       D.cls('Rot', [D.ctor('Rot')]),
                       D.enum('Kind', ['Dog', 'Cat'])])]


def constructs(seed=0):
    """name -> list of declarations to be placed inside namespace gt (may contain nested namespaces)."""
    V = 'std::vector'
    c = {}
    c['class_full'] = [D.cls('Cf', [
        D.ctor('Cf'), D.ctor('Cf', [arg(T('int'), 'a'), arg(T('double'), 'b', '1.5')]),
        D.method(single(T('int')), 'get', [], 1), D.method(single(T('int')), 'get', [arg(T('int'), 'i')], 1),
        D.method(single(T('void')), 'setIt', [arg(T('gt::Cf', 1, '&'), 'o'), arg(T('string'), 'n', '"x"')]),
        D.method(pair(T('int'), T('ns::Pose', 0, '*')), 'both', [arg(T('ns::Pose', 0, '@'), 'raw')]),
        D.static(single(T('gt::Cf')), 'Make', [arg(T('size_t'), 'n')]),
        D.static(single(T('void')), 'Reset', []),
        D.prop(T('int'), 'count'), D.prop(T('double', 1), 'fixed'), D.prop(T('ns::Pose'), 'pose'),
        D.dunder('len'), D.dunder('contains', [arg(T('int'), 'key')]), D.dunder('iter'),
    ])]
    ops = [D.op(single(T('gt::Op')), o, [arg(T('gt::Op', 1, '&'), 'o')]) for o in
           ['+', '-', '*', '/', '%', '^', '&', '|', '+=', '-=', '*=', '/=', '%=', '^=', '&=', '|=', '<<', '<<=', '>>', '>>=']]
    ops += [D.op(single(T('Op')), o, [arg(T('Op', 1, '&'), 'o')]) for o in ['==', '!=', '<', '>', '<=', '>=']]
    ops += [D.op(single(T('gt::Op')), '+', []), D.op(single(T('gt::Op')), '-', []),
            D.op(single(T('double')), '()', [arg(T('int'), 'i')]), D.op(single(T('int')), '[]', [arg(T('size_t'), 'i')])]
    c['operators'] = [D.cls('Op', [D.ctor('Op')] + ops)]
    c['defaults'] = [D.cls('Df', [
        D.ctor('Df', [arg(T('string'), 's', '"a, b"'), arg(T('char'), 'c', "'c'")]),
        D.method(single(T('void')), 'vec', [arg(T(V, 1, '&', [T('int')]), 'v', 'std::vector<int>(3, 1)'), arg(T('int'), 'k', '(1 + 2)')]),
        D.method(single(T('void')), 'obj', [arg(T('ns::Pose', 1, '&'), 'p', 'ns::Pose()'),
                                            arg(T(V, t=[T('int')]), 'w', 'std::vector<int>{1, 2}')]),
        D.method(single(T('int')), 'en', [arg(T('ns::Kind'), 'k', 'ns::Kind::Cat'), arg(T('double'), 'x', '-9.81')]),
        D.static(single(T('int')), 'st', [arg(T('size_t'), 'n', 'std::max(1, 2)'), arg(T('bool'), 'b', 'false')]),
    ]), D.func(single(T('int')), 'dfn', [arg(T('string', 1, '&'), 's', '"x;y"'), arg(T('int'), 'i', 'int(3)')])]
    c['default_braces'] = [D.cls('Db', [D.method(single(T('void')), 'vec', [arg(T(V, 1, '&', [T('int')]), 'v', '{1, 2}')])])]
    c['tclass_ptr'] = [D.cls('Tp', [D.ctor('Tp', [arg(T('T', 0, '*'), 'v')]),
                                    D.method(single(T(V, t=[T('T')])), 'many', [arg(T(V, 1, '&', [T('T', 0, '*')]), 'ps'), arg(T('T', 0, '@'), 'raw')]),
                                    D.method(single(T('T', 0, '*')), 'sp', [], 1)],
                             tpl=[D.tparam('T', [T('ns::Pose'), T('ns::Rot')])])]
    c['tclass'] = [D.cls('Tc', [D.ctor('Tc', [arg(T('T', 1, '&'), 'v')]), D.method(single(T('T')), 'value', [], 1),
                                D.static(single(T('This')), 'Id', []),
                                D.method(single(T(V, t=[T('T')])), 'many', [arg(T(V, 1, '&', [T('T')]), 'ps')]),
                                D.method(single(T('U')), 'as', [arg(T('U', 1, '&'), 'u')],
                                         tpl=[D.tparam('U', [T('int'), T('ns::Rot')])]),
                                D.static(single(T('U')), 'conv', [arg(T('T', 1, '&'), 't'), arg(T('U'), 'u')],
                                         tpl=[D.tparam('U', [T('int'), T('ns::Rot')])]),
                                D.op(single(T('This')), '+', [arg(T('This', 1, '&'), 'o')]),
                                D.prop(T('T'), 'field')],
                         tpl=[D.tparam('T', [T('double'), T('ns::Pose')])])]
    c['tclass2'] = [D.cls('Tw', [D.ctor('Tw', [arg(T('A'), 'a'), arg(T('B', 1, '&'), 'b')]),
                                 D.method(pair(T('A'), T('B')), 'both', [], 1)],
                          tpl=[D.tparam('A', [T('int'), T('ns::Pose')]), D.tparam('B', [T('double'), T('ns::Rot')])])]
    c['nested_targs'] = [D.cls('Nt', [D.method(single(T(V, t=[T(V, t=[T('int')])])), 'vv',
                                               [arg(T(V, 1, '&', [T(V, t=[T(V, t=[T('ns::Pose')])])]), 'deep')]),
                                      D.method(single(T('std::map', t=[T('int'), T(V, t=[T('ns::Pose', 0, '*')])])), 'mp',
                                               [arg(T('std::map', 1, '&', [T('string'), T('double')]), 'm')]),
                                      # markers two levels down in argument types
                                      D.method(single(T('void')), 'deepArg', [arg(T(V, 1, '&', [T(V, t=[T('ns::Pose', 0, '*')])]), 'v'),
                                                                              arg(T('std::map', t=[T('int'), T(V, t=[T('ns::Rot', 0, '@')])]), 'm')]),
                                      D.static(single(T('int')), 'deepStatic', [arg(T('std::map', 1, '&', [T('string'), T(V, t=[T('ns::Pose', 0, '*')])]), 'm')])]),
                         D.func(single(T(V, t=[T(V, t=[T('double')])])), 'nestedFn', [arg(T(V, t=[T(V, t=[T('int')])]), 'x')])]
    c['templated_markers'] = [D.cls('Tm', [D.method(single(T('void')), 'raw', [arg(T(V, 0, '@', [T('int')]), 'v'), arg(T(V, 1, '@', [T('double')]), 'cv')]),
                                           D.method(single(T('int')), 'refs', [arg(T(V, 1, '&', [T('ns::Pose')]), 'a'), arg(T('std::map', 0, '@', [T('int'), T('double')]), 'm')], 1),
                                           D.static(single(T('void')), 'sraw', [arg(T(V, 0, '@', [T(V, t=[T('int')])]), 'vv')])]),
                              D.func(single(T('void')), 'rawFn', [arg(T(V, 0, '@', [T('int')]), 'v')])]
    c['nested_tparam'] = [D.cls('Np', [D.method(single(T('void')), 'deep', [arg(T(V, t=[T(V, t=[T('T')])]), 'x')])],
                                tpl=[D.tparam('T', [T('double')])])]
    c['tfunc'] = [D.func(single(T('T')), 'tf', [arg(T('T', 1, '&'), 'a'), arg(T('int'), 'k', '2')],
                         tpl=[D.tparam('T', [T('int'), T('ns::Pose'), T(V, t=[T('ns::Rot')])])]),
                  D.func(pair(T('A'), T('B')), 'tf2', [arg(T('A'), 'a'), arg(T('B'), 'b')],
                         tpl=[D.tparam('A', [T('int')]), D.tparam('B', [T('double'), T('ns::Rot')])])]
    c['typedef'] = [D.cls('Tt', [D.ctor('Tt', [arg(T('T'), 'v')]), D.method(single(T('T')), 'get', [])], tpl=[D.tparam('T')]),
                    D.typedef(T('gt::Tt', t=[T('int')]), 'TtInt'),
                    D.typedef(T('gt::Tt', t=[T(V, t=[T('ns::Pose')])]), 'TtVec')]
    c['fwdtypedef'] = [D.fwd('Fw'), D.typedef(T('gt::Fw', t=[T('int')]), 'FwInt'),
                       D.typedef(T('gt::Fw', t=[T(V, t=[T('ns::Pose')])]), 'FwVec')]
    c['enums'] = [D.enum('En', ['A', 'B', 'C']), D.enum('Es', ['X', 'Y'], 'enum class'),
                  D.cls('Ce', [D.enum('Kind', ['Dog', 'Cat']), D.enum('Mode', ['FAST', 'SLOW'], 'enum class'),
                               D.ctor('Ce'), D.method(single(T('gt::Ce::Kind')), 'kind', [arg(T('gt::Ce::Mode'), 'm')], 1),
                               D.prop(T('gt::Ce::Kind'), 'k')]),
                  D.func(single(T('gt::En')), 'enumFn', [arg(T('gt::Es'), 'e', 'gt::Es::Y')]),
                  D.ns('deep', [D.enum('Ed', ['P', 'Q']), D.cls('Cd', [D.enum('Inner', ['I1'])])])]
    c['inherit'] = [D.cls('Ba', [D.ctor('Ba'), D.method(single(T('int')), 'base', [], 1)], v=1),
                    D.cls('De', [D.ctor('De'), D.method(single(T('int')), 'derived', [], 1)], v=1, b=T('gt::Ba')),
                    D.cls('Tb', [D.ctor('Tb'), D.method(single(T('T')), 'tb', [], 1)], tpl=[D.tparam('T')], v=1),
                    D.cls('Dt', [D.ctor('Dt')], v=1, b=T('gt::Tb', t=[T('ns::Pose')])),
                    D.cls('Dtt', [D.ctor('Dtt')], tpl=[D.tparam('T', [T('int'), T('ns::Rot')])], v=1, b=T('gt::Tb', t=[T('T')]))]
    c['vars'] = [D.var(T('double', 1), 'kGravity', '-9.81'), D.var(T('int'), 'counter'), D.var(T('string', 1), 'kName', '"nm"'),
                 D.ns('sub', [D.var(T('int', 1), 'kSub', '42'), D.var(T('double'), 'plain'),
                              # an initialiser that is a single identifier from somewhere else (a macro of <cstdlib>)
                              D.var(T('int', 1), 'kMaxRand', 'RAND_MAX')])]
    c['serial'] = [D.cls('Se', [D.ctor('Se'), D.method(single(T('void')), 'serialize', []),
                                D.method(single(T('void')), 'print', [arg(T('string', 1, '&'), 's', '""')], 1)]),
                   D.cls('Sp', [D.method(single(T('void')), 'serializable', [], 1), D.method(single(T('void')), 'print', [], 1)]),
                   # a serializing template with two arguments (its export needs a typedef'd alias)
                   D.cls('Sw', [D.ctor('Sw'), D.method(single(T('void')), 'serialize', [])],
                         tpl=[D.tparam('A', [T('int'), T('ns::Pose')]), D.tparam('B', [T('double'), T('ns::Rot')])])]
    # bases from the global namespace, spelled without qualifier inside a namespace
    c['global_base'] = [D.cls('Dg', [D.ctor('Dg'), D.method(single(T('int')), 'd', [], 1)], v=1, b=T('GBase')),
                        D.ns('deeper', [D.cls('Dh', [D.ctor('Dh')], v=1, b=T('GBox', t=[T('double')]))])]
    # enumerators spelled like Python keywords; a class that owns an enum and has nothing but dunder methods
    c['keyword_enumerators'] = [D.enum('Ek', ['None', 'pass', 'global', 'True'], 'enum class'),      # (scoped: `keywords` has functions of these names)
                                D.cls('Ke', [D.enum('Mood', ['None', 'Happy'], 'enum class'), D.ctor('Ke')]),
                                D.cls('Kb', [D.enum('E', ['X', 'Y']), D.dunder('len'), D.dunder('contains', [arg(T('int'), 'k')]), D.dunder('iter')])]
    # print declared static, with and without arguments, next to an ordinary one
    c['static_print'] = [D.cls('Ps', [D.ctor('Ps'), D.static(single(T('void')), 'print', [arg(T('string', 1, '&'), 'prefix')])]),
                         D.cls('Pt', [D.static(single(T('void')), 'print', [])]),
                         D.cls('Pv', [D.ctor('Pv'), D.method(single(T('void')), 'print', [arg(T('T', 1, '&'), 'v')], 1, [D.tparam('T', [T('double'), T('int')])])]),
                         D.cls('Pu', [D.method(single(T('void')), 'print', [arg(T('string', 1, '&'), 's'), arg(T('int'), 'n', '2')], 1),
                                      D.method(single(T('int')), 'printCount', [], 1), D.static(single(T('string')), 'printName', [arg(T('int'), 'i')])])]
    c['same_name_enums'] = [D.ns('n1', [D.cls('A', [D.enum('E', ['X']), D.ctor('A')])]),
                            D.ns('n2', [D.cls('A', [D.enum('E', ['Y']), D.ctor('A')])])]
    c['lowercase_names'] = [D.cls('Int', [D.enum('E', ['X']), D.ctor('Int')]),
                            D.cls('M_', [D.enum('E', ['X']), D.ctor('M_')]),
                            D.cls('Class', [D.enum('E', ['X'])]), D.cls('Py', [D.enum('E', ['X'])])]
    c['this_scoped_bare'] = [D.cls('Th', [D.enum('Sub', ['S1']), D.ctor('Th'),
                                          D.method(single(T('void')), 'setSub', [arg(T('This::Sub', 1, '&'), 's')])],
                                   tpl=[D.tparam('T', [T('ns::Pose')])])]
    c['this_scoped'] = [D.cls('Tq', [D.enum('Sub', ['S1']), D.ctor('Tq'),
                                     D.method(single(T('gt::This::Sub')), 'getSub', [arg(T('gt::This::Sub', 1, '&'), 's')], 1),
                                     D.prop(T('gt::This::Sub'), 'sub')],
                              tpl=[D.tparam('T', [T('ns::Pose'), T('double')])]),
                        D.cls('Tn', [D.enum('Sub', ['S1']), D.method(single(T('gt::This::Sub')), 'getSub', [], 1),
                                     D.static(single(T('This')), 'Make', []),
                                     # `This` as an argument of non-templated members of a non-templated class
                                     D.ctor('Tn'), D.ctor('Tn', [arg(T('This', 1, '&'), 'o')]),
                                     D.method(single(T('void')), 'setSub', [arg(T('gt::This::Sub'), 's'), arg(T('This', 0, '*'), 'p')]),
                                     D.static(single(T('int')), 'Cmp', [arg(T('This', 1, '&'), 'a'), arg(T('This', 0, '@'), 'b')])])]
    kws = ['lambda', 'None', 'def', 'del', 'global', 'import', 'pass', 'yield', 'async', 'await', 'in', 'is']
    c['keywords'] = [D.cls('Kw', [D.method(single(T('int')), n, [arg(T('int'), 'a')]) for n in kws] +
                           [D.static(single(T('int')), 'from', [])])] + \
                    [D.func(single(T('void')), n, [arg(T('int'), 'v')]) for n in kws[:4]]
    c['functions'] = [D.func(single(T('int')), 'fn', [arg(T('int'), 'a')]),
                      D.func(single(T('int')), 'fn', [arg(T('double'), 'x'), arg(T('string', 1, '&'), 'name', '"n"')]),
                      D.func(pair(T('ns::Pose', 0, '*'), T('double')), 'pr', [arg(T('ns::Pose', 0, '*'), 'p'), arg(T('ns::Rot', 0, '@'), 'r')]),
                      D.func(single(T('void')), 'noargs', []), D.func(single(T('ns::Pose', 1, '&')), 'cref', [])]
    # two different namespaces with the same innermost name, and a namespace named like its parent
    c['same_leaf_namespaces'] = [
        D.ns('sensors', [D.ns('detail', [D.cls('Sd', [D.ctor('Sd')]), D.func(single(T('int')), 'sdFn', []), D.var(T('int', 1), 'kSd', '1')])]),
        D.ns('robot', [D.ns('detail', [D.cls('Rd', [D.ctor('Rd')]), D.enum('Re', ['R1']), D.var(T('int', 1), 'kRd', '2')]),
                       D.ns('robot', [D.cls('Rr', [D.ctor('Rr')])])]),
        D.ns('detail', [D.func(single(T('int')), 'topDetail', [])])]
    # several This:: in one template argument list
    c['this_scoped_multi'] = [D.cls('Tz', [D.enum('Key', ['K1']), D.enum('Mode', ['M1', 'M2']), D.ctor('Tz'),
                                           D.method(single(T('void')), 'setAll', [arg(T('std::map', 1, '&', [T('gt::This::Key'), T('gt::This::Mode')]), 'm')]),
                                           D.method(single(T('std::map', t=[T('gt::This::Mode'), T(V, t=[T('gt::This::Key')])])), 'getAll', [], 1),
                                           D.static(single(T(V, t=[T('gt::This::Mode')])), 'Modes', [arg(T('std::map', t=[T('int'), T('gt::This::Key')]), 'a')])],
                                    tpl=[D.tparam('T', [T('ns::Pose'), T('double')])])]
    # header paths of which one is a suffix / prefix / substring of another, at two scopes
    c['include_paths'] = [D.include('vision/geometry/Pose.h'), D.include('geometry/Pose.h'), D.include('Pose.h'),
                          D.include('geometry/Pose.hpp'), D.include('geometry/Po'),
                          D.cls('Ip', [D.ctor('Ip')]),
                          D.ns('inc', [D.include('deep/vision/geometry/Pose.h'), D.include('ision/geometry/Pose.h'), D.include('mock.h'),
                                       D.cls('Iq', [D.ctor('Iq')])])]
    return c


def module_includes(items, top, path=('',), acc=None):
    """Headers named in the scopes that belong to the module (a scope belongs to it when its path and the top
    module namespace path agree on their common length)."""
    acc = [] if acc is None else acc
    n = min(len(path), len(top))
    if list(path[:n]) != list(top[:n]):
        return acc
    for d in items:
        if d['k'] == 'include' and d['h'] not in acc:
            acc.append(d['h'])
        elif d['k'] == 'ns':
            module_includes(d['c'], top, tuple(path) + (d['n'],), acc)
    return acc


def header_marker(h):
    return 'VF_HDR_' + ''.join(ch if ch.isalnum() else '_%02x' % ord(ch) for ch in h)


KNOWN_BAD_FIRST = []   # nothing is pre-excluded: findings go through known_findings.json

OPTIONS = {
    'root': dict(top=[''], ignore=[], ser=False),
    'root+ser': dict(top=[''], ignore=[], ser=True),
    'top-gt': dict(top=['', 'gt'], ignore=[], ser=True),
    'top-gt-deep': dict(top=['', 'gt', 'deep'], ignore=[], ser=False),
    'ignore': dict(top=[''], ignore=['gt::Cf', 'gt::Tc<double>', 'gt::Ce', 'gt::Ba', 'gt::n1::A', 'gt::TtInt', 'gt::Tt<int>'], ser=False),
}


def build_module(names, seed=0):
    cs = constructs(seed)
    body = []
    for n in names:
        body += cs[n]
    return [D.include('mock.h')] + SUPPORT + [D.ns('gt', body)]


def lexical(out):
    """Compiler-free checks on the generated text."""
    probs = []
    sec = gen.pybind_sections(out)
    w = sec.get('WRAPPED', out)
    for o, c in ('()', '[]', '{}'):
        s = re.sub(r'"(?:[^"\\]|\\.)*"|\'(?:[^\'\\]|\\.)*\'', '""', w)
        if s.count(o) != s.count(c):
            probs.append(('unbalanced', o + c))
    for r in gen.scan_pybind(w):
        members = r.get('members', [])
        if r['k'] == 'function':
            members = [r]
        for m in members:
            if m.get('kind') in ('method', 'static'):
                params = [p for p in m['params'] if p[1] != 'self']
                if len(params) != len(m['pyargs']):
                    probs.append(('lambda-params-vs-pyargs', '%s: %d vs %d' % (m.get('py'), len(params), len(m['pyargs']))))
                if [p[1] for p in params] != [a[0] for a in m['pyargs']]:
                    probs.append(('lambda-names-vs-pyargs', str(m.get('py'))))
            if m.get('kind') == 'ctor' and len(m['types']) != len(m['pyargs']):
                probs.append(('init-types-vs-pyargs', '%d vs %d' % (len(m['types']), len(m['pyargs']))))
    return probs


def compile_case(case):
    """case: names, opt, dir (shared build dir with pch)."""
    names, optk = case['names'], case['opt']
    opt = OPTIONS[optk]
    mod = build_module(names, case.get('seed', 0))
    text = D.render(mod)
    b = cxx.Builder(case['dir'])
    udir = b.unit_dir('u%d' % case['idx'])
    viol = []
    try:
        try:
            out = gen.pybind(text, top=opt['top'], ignore=opt['ignore'], serialization=opt['ser'],
                             template=cxx.MODULE_TEMPLATE, module_name='mod')
        except Exception as e:
            return {'viol': [{'sig': 'C09|%s|generator-exception|%s' % ('+'.join(names), type(e).__name__),
                              'msg': 'generator raised %s: %s\n--- input ---\n%s' % (type(e).__name__, str(e)[:300], text)}]}
        for p in lexical(out):
            viol.append({'sig': 'C09|%s|lexical|%s' % ('+'.join(names), p[0]),
                         'msg': 'lexical problem %r\n--- input ---\n%s' % (p, text)})
        hdr, _ = cxx.mock_header(mod[1:])
        with open(os.path.join(udir, 'mock.h'), 'w') as f:
            f.write(hdr)
        # every header the interface file names must be included by the generated translation unit
        tail = ''
        for h in module_includes(mod, opt['top']):
            if h == 'mock.h':
                continue
            os.makedirs(os.path.dirname(os.path.join(udir, h)) or udir, exist_ok=True)
            with open(os.path.join(udir, h), 'w') as f:
                f.write('#pragma once\n#define %s 1\n' % header_marker(h))
            tail += '\n#ifndef %s\n#error header_of_the_interface_file_not_included %s\n#endif\n' % (header_marker(h), h)
        with open(os.path.join(udir, 'tu.cpp'), 'w') as f:
            f.write(out + tail)
        b.check_mock(udir)
        rc, err = b.syntax_check(udir, compiler=case.get('compiler', 'g++'))
        if rc != 0:
            errs = cxx.first_errors(err)
            kind = 'does-not-compile'
            viol.append({'sig': 'C09|%s|%s|%s|%s' % ('+'.join(names), optk, kind, norm_err(errs[0] if errs else err[:200])),
                         'msg': '%s (%s, options %s):\n%s\n--- generated (excerpt) ---\n%s\n--- input ---\n%s'
                                % (kind, case.get('compiler', 'g++'), optk, '\n'.join(errs), excerpt(out, errs), text)})
        return {'viol': viol, 'rc': rc, 'size': len(out)}
    finally:
        shutil.rmtree(udir, ignore_errors=True)


ERR_CLASSES = [
    (r"header_of_the_interface_file_not_included", 'header-of-the-interface-file-not-included'),    # compiler-independent classes of the first error (g++ and clang++ word them differently)
    (r"no match for 'operator='|no viable overloaded '='", 'assignment-to-py-arg-does-not-compile'),
    (r"'(\w+)' was not declared in this scope|use of undeclared identifier '(\w+)'", 'undeclared-identifier'),
    (r"expected primary-expression before '\w+'|cannot combine with previous|expected unqualified-id", 'keyword-or-garbage-where-a-name-is-expected'),
    (r"conflicting declaration|redefinition of '\w+'", 'redefinition'),
    (r"'\w+' does not name a type|no template named '\w+'|unknown type name '\w+'", 'unqualified-or-unknown-type-name'),
]


def norm_err(e):
    e = re.sub(r'^.*?error:\s*', '', e)
    e = re.sub(r"[‘’']", "'", e)
    for pat, cls in ERR_CLASSES:
        m = re.search(pat, e)
        if m:
            ident = next((g for g in m.groups() if g), None) if m.groups() else None
            return cls + (':' + ident if ident else '')
    e = re.sub(r"[‘’']", "'", e)
    e = re.sub(r'\d+', 'N', e)
    return e[:90]


def excerpt(out, errs):
    lines = out.split('\n')
    res = []
    for e in errs[:2]:
        m = re.search(r'tu\.cpp:(\d+)', e)
        if m:
            i = int(m.group(1)) - 1
            res.append('%d: %s' % (i + 1, lines[i][:400] if i < len(lines) else ''))
    return '\n'.join(res)


def replay(case):
    d = gen.mkdtemp('c09r')
    try:
        b = cxx.Builder(d)
        b.build_pch()
        c = dict(case, dir=d)
        return compile_case(c)['viol']
    finally:
        shutil.rmtree(d, ignore_errors=True)


def run(ctx):
    d = gen.mkdtemp('c09')
    try:
        b = cxx.Builder(d)
        b.build_pch()
        names = list(constructs())
        cases = []

        def add(ns, optk, compiler='g++'):
            cases.append({'names': list(ns), 'opt': optk, 'dir': d, 'idx': len(cases), 'seed': ctx.seed, 'compiler': compiler})
        for n in names:
            for optk in OPTIONS:
                add([n], optk)
        pairs = list(itertools.permutations(names, 2))
        if not ctx.thorough:
            # quick: every unordered pair once (ordered pairs in thorough)
            pairs = list(itertools.combinations(names, 2))
        for a, bb in pairs:
            add([a, bb], 'root+ser')
        if ctx.thorough:
            for n in names:
                add([n], 'root+ser', 'clang++')
            for tri in itertools.combinations(names, 3):
                add(list(tri), 'top-gt')
        res = ctx.map(compile_case, cases, chunksize=1)
        ok = sum(1 for _, r in res if r.get('rc') == 0)
        return {
            'evaluations': len(cases),
            'distinct_nontrivial': len({(tuple(c['names']), c['opt'], c['compiler']) for c in cases}),
            'rule': '%d interface constructs; each alone under 5 option sets (top namespace depth 0..2, ignore list, '
                    'serialization), every %s pair of constructs in one translation unit%s; each generated TU is '
                    'compiled with -fsyntax-only against the generated mock library; distinct by (constructs, options, compiler)'
                    % (len(names), 'ordered' if ctx.thorough else 'unordered',
                       ', each construct with clang++, every triple under a depth-1 top namespace' if ctx.thorough else ''),
            'samples': [D.render(build_module(cases[0]['names'])), D.render(build_module(['defaults']))],
            'exhaustive': True,
            'translation_units_compiled_ok': ok,
        }
    finally:
        shutil.rmtree(d, ignore_errors=True)
