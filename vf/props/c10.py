"""C10 — the MATLAB toolbox contains exactly the declared classes, functions, enums (bounded-exhaustive exploration).

Modules = 10 entity kinds placed in each of 4 namespace scopes (global, a, a::b, a::b::c), alone and in ordered
pairs, x ignore list x serialization flag.  Oracle: the generated file tree equals the reference toolbox
(vf.refml): one classdef per non-ignored class instantiation in its +package path, one .m per function name, one
enumeration classdef per enum (class-scoped enums under +Class), exactly one MEX source; each classdef's parsed
structure (base or handle, pointer property, one constructor, delete, one method per distinct name, one static per
distinct name, get/set per property, offered constructor arities) and each enum's enumerators 0..n-1 in order;
MEX preamble: one collector per class, one clean-up block per collector, an RTTI insert per virtual class.
"""
import itertools

from vf import dialect as D
from vf import gen, refml
from vf.dialect import T, arg, single, pair

ID = 'C10'
LEVEL = 'exploration'
ASSUMPTIONS = [
    'reference toolbox model vf/refml.py; .m files read with the mini-MATLAB parser (an unparsable file is a finding of kind unparsable, shown as such)',
    'typedefs of forward-declared foreign templates are not in the alphabet (the statement speaks of classes of the interface)',
]

SCOPES = [[], ['a'], ['a', 'b'], ['a', 'b', 'c']]


def tag(path):
    return ''.join(path).upper() if path else 'G'


def q(path, n):
    return '::'.join(path + [n])


def entity(kind, path):
    s = tag(path)
    I = T('int')
    if kind == 'class_full':
        C = 'Cf' + s
        return [D.cls(C, [D.ctor(C), D.ctor(C, [arg(I, 'a'), arg(T('double'), 'b', '1.5'), arg(T('string'), 'c', '"x"')]),
                          D.method(single(I), 'get', [], 1), D.method(single(I), 'get', [arg(I, 'i')], 1),
                          D.method(single(T('void')), 'setIt', [arg(T(q(path, C), 1, '&'), 'o'), arg(T('string'), 'n', '"x"')]),
                          D.static(single(T(q(path, C))), 'Make', [arg(T('size_t'), 'n')]),
                          D.static(single(I), 'Make', []), D.static(single(T('void')), 'Other', [arg(I, 'k', '2')]),
                          D.static(single(I), 'get', [arg(T(q(path, C), 1, '&'), 'of'), arg(I, 'j')]),      # same name as the instance method
                          D.prop(I, 'count'), D.prop(T('double'), 'weight'),
                          D.op(single(T(q(path, C))), '+', [arg(T(q(path, C), 1, '&'), 'o')])])]
    if kind == 'tclass':
        C = 'Tc' + s
        return [D.cls(C, [D.ctor(C, [arg(T('T', 1, '&'), 'v')]), D.method(single(T('T')), 'value', [], 1),
                          D.static(single(I), 'Id', []),
                          D.method(single(T('U')), 'as', [arg(T('U', 1, '&'), 'u')], tpl=[D.tparam('U', [I, T('ns::Rot')])])],
                      tpl=[D.tparam('T', [T('double'), T('ns::Pose')])])]
    if kind == 'tclass2':
        # two template parameters: the C++ name of an instantiation contains a blank (Tw<int, double>)
        C = 'Tw' + s
        return [D.cls(C, [D.ctor(C, [arg(T('A'), 'a'), arg(T('B', 1, '&'), 'b')]), D.method(single(T('B')), 'second', [], 1)],
                      tpl=[D.tparam('A', [I, T('ns::Pose')]), D.tparam('B', [T('double')])])]
    if kind == 'xtypedef':
        C = 'Tx' + s
        return [D.cls(C, [D.ctor(C, [arg(T('T'), 'v')]), D.method(single(T('T')), 'get', [])], tpl=[D.tparam('T')]),
                D.ns('app' + s.lower(), [D.typedef(T(q(path, C), t=[I]), C + 'Int'), D.cls('Ua' + s, [D.ctor('Ua' + s)]),
                                         D.ns('ui', [D.typedef(T(q(path, C), t=[T('double')]), C + 'Dbl')])])]
    if kind == 'fwdtd':
        # a foreign (forward-declared) template given a name by a typedef
        return [D.fwd('Fw' + s), D.typedef(T(q(path, 'Fw' + s), t=[I]), 'Fw' + s + 'Int'),
                D.cls('Uf' + s, [D.ctor('Uf' + s)])]
    if kind == 'typedef':
        C = 'Tt' + s
        return [D.cls(C, [D.ctor(C, [arg(T('T'), 'v')]), D.method(single(T('T')), 'get', [])], tpl=[D.tparam('T')]),
                D.typedef(T(q(path, C), t=[I]), 'TtInt' + s)]
    if kind == 'enumclass':
        C = 'Ce' + s
        # same enum names in every scope's class, different enumerators
        return [D.cls(C, [D.enum('Kind', ['Dog' + s, 'Cat' + s]), D.enum('Mode', ['FAST', 'SLOW' + s, 'OFF'][:2 + len(path) % 2], 'enum class'),
                          D.ctor(C), D.method(single(I), 'kind', [], 1)])]
    if kind == 'samename':
        # the same class name in every scope, and (below a) in two sibling namespaces that are both called detail
        out = [D.cls('Same', [D.ctor('Same'), D.method(single(I), 'where' + s, [], 1), D.enum('Tag', ['T' + s]),
                              # a parameter of the class's own (qualified) type: guards name the class by its full name
                              D.method(single(I), 'merge', [arg(T(q(path, 'Same'), 1, '&'), 'o'), arg(I, 'k', '1')])], v=1)]
        if len(path) == 1:
            out += [D.ns('left', [D.ns('detail', [D.cls('Pool', [D.ctor('Pool'), D.method(single(I), 'l', [], 1)], v=1)])]),
                    D.ns('right', [D.ns('detail', [D.cls('Pool', [D.ctor('Pool'), D.method(single(I), 'r', [], 1)], v=1)])])]
        return out
    if kind == 'derived':
        B, C = 'Ba' + s, 'De' + s
        return [D.cls(B, [D.method(single(I), 'base', [], 1)], v=1),
                D.cls(C, [D.ctor(C), D.ctor(C, [arg(I, 'a', '1')]), D.method(single(I), 'derived', [], 1)], v=1, b=T(q(path, B)))]
    if kind == 'noctor':
        C = 'Nc' + s
        return [D.cls(C, [D.method(single(I), 'only', [], 1)])]
    if kind == 'enum':
        return [D.enum('En' + s, ['A' + s, 'B' + s, 'C' + s]), D.enum('Es' + s, ['X'], 'enum class')]
    if kind == 'func':
        return [D.func(single(I), 'fn' + s, [arg(I, 'a')]),
                D.func(single(I), 'fn' + s, [arg(T('double'), 'x'), arg(T('string'), 'name', '"n"')]),
                D.func(single(T('void')), 'other' + s, []),
                D.func(single(I), 'pickle', [arg(I, 'protocol' + s)])]
    if kind == 'tfunc':
        return [D.func(single(T('T')), 'tf' + s, [arg(T('T', 1, '&'), 'a'), arg(I, 'k', '2')], tpl=[D.tparam('T', [I, T('ns::Pose')])])]
    if kind == 'var':
        return [D.var(T('double', 1), 'kVal' + s, '9.81')]
    if kind == 'serial':
        C = 'Se' + s
        # a class without instance methods directly after a serializing one
        return [D.cls(C, [D.ctor(C), D.method(single(T('void')), 'serialize', [], 1), D.method(single(I), 'x', [], 1)]),
                D.cls('St' + s, [D.ctor('St' + s), D.static(single(I), 'Count', []), D.prop(I, 'p')]),
                D.cls('So' + s, [D.ctor('So' + s), D.method(single(T('void')), 'serialize', [], 1)]),       # nothing but serialize
                D.cls('Sb' + s, [D.method(single(T('void')), 'serializable', [], 1), D.method(single(I), 'y', [], 1)])]
    if kind == 'specialbase':
        # user classes that are called like the built-in fixed-size types, used as base classes
        out = [D.cls('Point3', [D.ctor('Point3'), D.method(single(I), 'norm' + s, [], 1)], v=1),
               D.cls('Pd' + s, [D.ctor('Pd' + s)], v=1, b=T(q(path, 'Point3')))]
        if path:
            out += [D.cls('Matrix', [D.ctor('Matrix')], v=1), D.cls('Md' + s, [D.ctor('Md' + s), D.method(single(I), 'rows', [], 1)], v=1, b=T(q(path, 'Matrix')))]
        return out
    if kind == 'prefixnames':
        # the (flattened) name of a later class is a prefix of an earlier one, and the other way round
        return [D.cls('Pose' + s + '2', [D.ctor('Pose' + s + '2'), D.method(single(I), 'two', [], 1)], v=1),
                D.cls('Pose' + s, [D.ctor('Pose' + s), D.method(single(I), 'one', [], 1)], v=1),
                D.cls('Pose' + s + '2d', [D.ctor('Pose' + s + '2d')], v=1, b=T(q(path, 'Pose' + s + '2')))]
    raise ValueError(kind)


KINDS = ['class_full', 'tclass', 'typedef', 'enumclass', 'derived', 'noctor', 'enum', 'func', 'tfunc', 'var', 'serial', 'samename', 'prefixnames', 'specialbase', 'xtypedef']


def build(kinds):
    def content(path):
        out = [D.include('inc%s.h' % tag(path))]
        for k in kinds:
            out += entity(k, path)
        return out
    c = content(['a', 'b', 'c'])
    b = content(['a', 'b']) + [D.ns('c', c)]
    a = content(['a'])
    a = a[:2] + [D.ns('b', b)] + a[2:]
    g = content([])
    return g[:1] + [D.ns('a', a)] + g[1:]


def ignore_sets(kinds):
    out = {'none': []}
    if 'class_full' in kinds:
        out.update({'nested': ['a::b::CfAB'], 'two': ['a::CfA', 'a::b::c::CfABC'], 'global': ['CfG']})
    if 'tclass' in kinds:
        out['one-instantiation'] = ['a::TcADouble']
    if 'enumclass' in kinds:
        out['class-with-enums'] = ['a::CeA']
    if 'derived' in kinds:
        out['derived-class'] = ['a::DeA']
    if 'samename' in kinds:
        out['same-name-global'] = ['Same']
        out['same-name-nested'] = ['a::b::Same', 'a::right::detail::Pool']
    return out


def check_case(case):
    kinds, ign, ser = case['kinds'], case['ignore'], case['ser']
    mod = build(kinds)
    text = D.render(mod)
    viol = []
    ctxs = 'kinds=%s ignore=%s serialization=%s' % (kinds, ign, ser)

    def add(sig, msg):
        viol.append({'sig': sig, 'msg': '%s\n%s\n--- input ---\n%s' % (msg, ctxs, text)})
    try:
        tree = gen.matlab(text, ignore=ign, serialization=ser)
    except Exception as e:
        return {'viol': [{'sig': 'C10|exception|%s|%s' % ('+'.join(kinds), type(e).__name__),
                          'msg': 'generator raised %s: %s\n%s\n--- input ---\n%s' % (type(e).__name__, str(e)[:300], ctxs, text)}]}
    exp = refml.expected_toolbox(mod, ign, ser)
    obs = refml.observed_toolbox(tree)
    ef, of = exp['files'], obs['files']
    for p in sorted(set(ef) - set(of)):
        add('C10|missing-file|%s|%s|depth%d' % (ef[p]['kind'], case['ignk'], p.count('/')), 'expected file %s (%s) was not generated; tree: %s' % (p, ef[p]['kind'], sorted(of)))
    for p in sorted(set(of) - set(ef)):
        add('C10|extra-file|%s|%s|depth%d' % (of[p]['kind'], case['ignk'], p.count('/')), 'unexpected file %s (%s)' % (p, of[p]['kind']))
    for p in sorted(set(ef) & set(of)):
        d = D.diff_all(ef[p], of[p], p)
        for x in d:
            add('C10|file-structure|%s|%s|%s' % (ef[p]['kind'], D.diff_locus(x).split('.')[-1], p.split('/')[-1][:2]), 'structure of %s' % x)
    if sorted(exp['collectors']) != sorted(obs['collectors']):
        add('C10|collectors|%s' % case['ignk'], 'collectors differ: expected %s, observed %s' % (sorted(exp['collectors']), sorted(obs['collectors'])))
    if sorted(exp['rtti']) != sorted(obs['rtti']):
        add('C10|rtti|%s' % case['ignk'], 'RTTI registrations differ: expected %s, observed %s' % (sorted(exp['rtti']), sorted(obs['rtti'])))
    for p in obs['problems']:
        add('C10|structure-problem|%s' % p[1].split(' ')[0], 'structural problem in %s: %s' % p)
    return {'viol': viol, 'nfiles': len(ef)}


def replay(case):
    return check_case(case)['viol']


def run(ctx):
    cases = []
    for k in KINDS:
        for ignk, ign in ignore_sets([k]).items():
            for ser in (False, True):
                cases.append({'kinds': [k], 'ignk': ignk, 'ignore': ign, 'ser': ser})
    for k1, k2 in itertools.permutations(KINDS, 2):
        cases.append({'kinds': [k1, k2], 'ignk': 'none', 'ignore': [], 'ser': False})
    for k1, k2 in itertools.permutations(KINDS, 2):
        for ignk, ign in ignore_sets([k1, k2]).items():
            if ignk != 'none':
                cases.append({'kinds': [k1, k2], 'ignk': ignk, 'ignore': ign, 'ser': True})
    if ctx.thorough:
        for ks in itertools.combinations(KINDS, 3):
            cases.append({'kinds': list(ks), 'ignk': 'none', 'ignore': [], 'ser': True})
    res = ctx.map(check_case, cases, chunksize=1)
    return {
        'evaluations': len(cases),
        'distinct_nontrivial': len({(tuple(c['kinds']), tuple(c['ignore']), c['ser']) for c in cases}),
        'rule': '12 entity kinds in each of 4 namespace scopes (depth 0..3): singles x applicable ignore lists x serialization, '
                'all ordered pairs (also x ignore lists with serialization)%s; file tree, per-file structure and MEX preamble compared with the reference toolbox'
                % ('; all triples with serialization' if ctx.thorough else ''),
        'samples': [D.render(build(['enumclass']))[:1500]],
        'exhaustive': True,
        'files_expected_and_compared': sum(r.get('nfiles', 0) for _, r in res),
    }
