"""C03 — the generated Python module exposes exactly the declared API (bounded-exhaustive exploration).

Modules = a fixed 6-scope namespace skeleton (global, a, a::b, a::b::c, a::b2, z) whose every scope holds one
entity kind (12 kinds) or an ordered pair of kinds, x top-module namespace (8 settings: root, matching prefixes of
depth 1..3, sibling, non-matching, partially matching, inner name only) x ignore list (5 settings) x
serialization flag.  Oracle: the multiset of registrations scanned from the generated text equals the reference
API (vf.refpy) exactly; each submodule is created once, after its parent and before use.
"""
import itertools

from vf import dialect as D
from vf import gen, refpy
from vf.dialect import T, arg, single, pair

ID = 'C03'
LEVEL = 'exploration'
ASSUMPTIONS = [
    'reference API model vf/refpy.py (written from the property statement and DOCS.md)',
    'registrations are read by a token-level scanner of the emitted C++ (vf/gen.py); compiled introspection is done in C04',
    'names with documented special handling (print, serialize/serializable beyond the flag, ipython names, gtsam::Values::insert) are not in the alphabet',
]

SCOPES = [[], ['a'], ['a', 'b'], ['a', 'b', 'c'], ['a', 'b2'], ['g', 'h'], ['z'], ['z', 'b'], ['a', 'b', 'a']]
# g holds nothing but the namespace h; z::b shares its leaf name with a::b; a::b::a repeats the name of its
# top-level ancestor; namespace a is opened a second time at the end of the file
TOPS = {
    'root': [''], 'd1': ['', 'a'], 'd2': ['', 'a', 'b'], 'd3': ['', 'a', 'b', 'c'], 'sibling': ['', 'z'],
    'nonmatch': ['', 'q'], 'partial': ['', 'a', 'q'], 'inner-name': ['', 'b'], 'grouping': ['', 'g'], 'sibling-d2': ['', 'z', 'b'],
}


def tag(path):
    return '_' + ''.join(path) if path else '_g'


def q(path, name):
    return '::'.join(path + [name])


def entity(kind, path, seed=0, tag_=None):
    s = tag_ or tag(path)
    kws = refpy.PY_KEYWORDS_USABLE
    if kind == 'class_full':
        C = 'Cf' + s
        return [D.cls(C, [
            D.ctor(C), D.ctor(C, [arg(T('int'), 'a'), arg(T('double'), 'b', '1.5')]),
            D.method(single(T('int')), 'get', [], 1), D.method(single(T('int')), 'get', [arg(T('int'), 'i')], 1),
            D.method(single(T('void')), 'setIt', [arg(T(q(path, C), 1, '&'), 'o'), arg(T('string'), 'n', '"x"')]),
            D.static(single(T(q(path, C))), 'Make', [arg(T('size_t'), 'n')]),
            D.method(single(T('void')), 'print', [arg(T('string', 1, '&'), 's', '""')], 1),
            D.prop(T('int'), 'count'), D.prop(T('double', 1), 'fixed'),
            D.op(single(T(q(path, C))), '+', [arg(T(q(path, C), 1, '&'), 'o')]),
            D.op(single(T(q(path, C))), '-', []),
            # the same symbols once more, in the other arity
            D.op(single(T(q(path, C))), '-', [arg(T(q(path, C), 1, '&'), 'o')]),
            D.op(single(T(q(path, C))), '+', []),
            D.op(single(T('double')), '()', [arg(T('int'), 'i')]),
            D.op(single(T('int')), '[]', [arg(T('size_t'), 'i')]),
            D.dunder('len'), D.dunder('contains', [arg(T('int'), 'key')]), D.dunder('iter'),
        ])]
    if kind == 'tclass':
        C = 'Tc' + s
        return [D.cls(C, [D.ctor(C, [arg(T('T', 1, '&'), 'v')]), D.method(single(T('T')), 'value', [], 1),
                          D.enum('Mode', ['M1', 'M2']), D.enum('Level', ['LOW', 'HIGH'], 'enum class'),
                          D.static(single(T('This')), 'Id', []),
                          D.method(single(T('U')), 'as', [arg(T('U', 1, '&'), 'u')], tpl=[D.tparam('U', [T('int'), T('ns::Rot')])]),
                          # an instance template and a static method of the same C++ name (different Python names), and vice versa
                          D.method(single(T('void')), 'fill', [arg(T('U', 1, '&'), 'u')], tpl=[D.tparam('U', [T('double'), T('string')])]),
                          D.static(single(T('int')), 'fill', []),
                          D.method(single(T('double')), 'make', [], 1),
                          D.static(single(T('U')), 'make', [arg(T('U'), 'u')], tpl=[D.tparam('U', [T('int')])])],
                      tpl=[D.tparam('T', [T('double'), T('ns::Pose')])])]
    if kind == 'typedef':
        C = 'Tt' + s
        return [D.cls(C, [D.ctor(C, [arg(T('T'), 'v')]), D.method(single(T('T')), 'get', [])], tpl=[D.tparam('T')]),
                D.typedef(T(q(path, C), t=[T('int')]), 'TtInt' + s),
                D.typedef(T(q(path, C), t=[T('ns::Pose')]), 'TtPose' + s)]
    if kind == 'enumclass':
        C = 'Ce' + s
        return [D.cls(C, [D.enum('Kind', ['Dog', 'Cat']), D.enum('Mode', ['FAST', 'SLOW', 'OFF'], 'enum class'),
                          D.ctor(C), D.method(single(T('int')), 'kind', [], 1)])]
    if kind == 'derived':
        B, C = 'Ba' + s, 'De' + s
        return [D.cls(B, [D.method(single(T('int')), 'base', [], 1)], v=1),
                D.cls(C, [D.ctor(C), D.method(single(T('int')), 'derived', [], 1)], v=1, b=T(q(path, B))),
                # a derived class that also owns an enum (bound through a named py::class_ variable)
                D.cls('Dn' + s, [D.enum('Mode', ['ON', 'OFF']), D.ctor('Dn' + s)], v=1, b=T(q(path, B)))]
    if kind == 'enum':
        return [D.enum('En' + s, ['A' + s, 'B' + s, 'C' + s]), D.enum('Es' + s, ['X'], 'enum class')]
    if kind == 'func':
        return [D.func(single(T('int')), 'fn' + s, [arg(T('int'), 'a')]),
                D.func(single(T('int')), 'fn' + s, [arg(T('double'), 'x'), arg(T('string', 1, '&'), 'name', '"n"')]),
                D.func(single(T('void')), 'other' + s, []),
                D.func(single(T('void')), 'print', [arg(T('int') if tag_ is None else T('double'), 'v' + s)])]
    if kind == 'tfunc':
        return [D.func(single(T('T')), 'tf' + s, [arg(T('T', 1, '&'), 'a'), arg(T('int'), 'k', '2')],
                       tpl=[D.tparam('T', [T('int'), T('ns::Pose')])])]
    if kind == 'var':
        return [D.var(T('double', 1), 'kVal' + s, '9.81'), D.var(T('int'), 'counter' + s)]
    if kind == 'fwdtypedef':
        return [D.fwd('Fw' + s), D.typedef(T(q(path, 'Fw' + s), t=[T('int')]), 'FwInt' + s)]
    if kind == 'kwnames':
        C = 'Kw' + s
        rot = seed % len(kws)
        k = kws[rot:] + kws[:rot]
        # names that are no (hard) keywords of Python must be bound as they are
        soft = ['type', 'match', 'case', '_', 'self', 'cls', 'exec', 'print_', 'None_', 'lambda_']
        return [D.cls(C + 'M', [D.method(single(T('int')), n, [arg(T('int'), 'a')]) for n in k]),
                D.cls(C + 'S', [D.static(single(T('int')), n, []) for n in k]),
                D.cls(C + 'N', [D.method(single(T('int')), n, [arg(T('int'), 'a')]) for n in soft] +
                      [D.static(single(T('int')), n, []) for n in reversed(soft)])] + \
               ([D.func(single(T('void')), n, [arg(T('int'), 'v' + s)]) for n in k + soft[:4]] if tag_ is None else [])
    if kind == 'kwprops':
        C = 'Kp' + s
        return [D.cls(C, [D.prop(T('int'), n) for n in kws[:6]] + [D.enum('E', kws[6:10])]),
                D.enum('Ek' + s, kws[10:14])]
    if kind == 'values':
        return [D.cls('Values', [D.ctor('Values'), D.method(single(T('void')), 'insert', [arg(T('size_t'), 'j'), arg(T('double'), 'vec')]),
                                 D.method(single(T('void')), 'insert', [arg(T('size_t'), 'j'), arg(T('int'), 'number')])])] if tag_ is None else []
    if kind == 'serial':
        return [D.cls('Se' + s, [D.ctor('Se' + s), D.method(single(T('void')), 'serialize', []),
                                 D.method(single(T('int')), 'x', [])]),
                D.cls('Sb' + s, [D.method(single(T('void')), 'serializable', [], 1)])]
    raise ValueError(kind)


# 'kwprops' (keyword-named properties/enumerators) is deliberately not in the alphabet: the statement's keyword
# rule is anchored in method/function naming only, so neither escaping nor not escaping them is demanded.
KINDS = ['class_full', 'tclass', 'typedef', 'enumclass', 'derived', 'enum', 'func', 'tfunc', 'var', 'fwdtypedef',
         'kwnames', 'serial', 'values']


def build(kinds, seed=0):
    """Module with the given entity kinds (in order) in every scope of the skeleton."""
    def content(path):
        out = [D.include('inc%s.h' % tag(path))]
        for k in kinds:
            out += entity(k, path, seed)
        return out
    c = content(['a', 'b', 'c'])
    b = content(['a', 'b']) + [D.ns('c', c), D.ns('a', content(['a', 'b', 'a']))]
    b2 = content(['a', 'b2'])
    a = content(['a'])
    a = a[:2] + [D.ns('b', b)] + a[2:] + [D.ns('b2', b2), D.ns('n_m', content(['a', 'n_m']) + [D.ns('in_ner', content(['a', 'n_m', 'in_ner']))])]
    g = content([])
    zz = content(['z'])
    return g[:1] + [D.ns('a', a)] + g[1:] + [D.ns('g', [D.ns('h', content(['g', 'h']))]),
                                              D.ns('z', zz[:2] + [D.ns('b', content(['z', 'b']))] + zz[2:]),
                                              D.ns('a', reopened(kinds, seed))]


def reopened(kinds, seed):
    """Second block of namespace a: the same entity kinds again under another tag."""
    out = [D.include('sub/inc_a.h')]     # its path ends with the path of an earlier include
    for k in kinds:
        out += entity(k, ['a'], seed, tag_='_a2')
    # ... and the sub-namespace a::b is opened again inside it
    inner = []
    for k in kinds:
        inner += entity(k, ['a', 'b'], seed, tag_='_ab2')
    out.append(D.ns('b', inner))
    return out


def ignore_sets(kinds):
    out = {'none': []}
    if 'class_full' in kinds:
        out.update({'nested-class': ['a::b::Cf_ab'], 'sibling-class': ['z::Cf_z'], 'global-class': ['Cf_g'],
                    'two': ['a::Cf_a', 'a::b::c::Cf_abc']})
    if 'tclass' in kinds:
        out['one-instantiation'] = ['a::Tc_a<double>']
    if 'typedef' in kinds:
        out['typedef-instantiation'] = ['a::b::Tt_ab<int>']
    if 'enumclass' in kinds:
        out['class-with-enums'] = ['a::Ce_a']
    if 'derived' in kinds:
        out['base-class'] = ['a::Ba_a']
    if 'fwdtypedef' in kinds:
        out['foreign-typedef'] = ['a::Fw_a<int>']
    return out


def check_group(group):
    """All option combinations of one module text (parsed once per worker, deep-copied per run; the first
    combination is also generated from a fresh parse and must give the same bytes)."""
    viol = []
    nrec = 0
    first = group['cases'][0]
    mod = build(first['kinds'], first.get('seed', 0))
    text = D.render(mod)
    gen.disable_parse_cache()
    try:
        fresh = gen.pybind(text, top=TOPS[first['top']], ignore=first['ignore'], serialization=first['ser'])
    except Exception as e:
        fresh = 'EXC %s' % type(e).__name__
    gen.enable_parse_cache()
    try:
        try:
            cached = gen.pybind(text, top=TOPS[first['top']], ignore=first['ignore'], serialization=first['ser'])
        except Exception as e:
            cached = 'EXC %s' % type(e).__name__
        if cached != fresh:
            raise RuntimeError('parse cache is not faithful for this input (harness problem)')
        for case in group['cases']:
            r = check_case(case, mod, text)
            for v in r['viol']:
                v['case'] = case
            viol += r['viol']
            nrec += r.get('nrec', 0)
    finally:
        gen.disable_parse_cache()
    return {'viol_cases': viol, 'nrec': nrec}


def check_case(case, mod=None, text=None):
    kinds, topk, ign, ser = case['kinds'], case['top'], case['ignore'], case['ser']
    if mod is None:
        mod = build(kinds, case.get('seed', 0))
        text = D.render(mod)
    top = TOPS[topk]
    try:
        out = gen.pybind(text, top=top, ignore=ign, serialization=ser)
    except Exception as e:
        return {'viol': [{'sig': 'C03|exception|%s|%s|%s' % ('+'.join(kinds), topk, type(e).__name__),
                          'msg': 'generator raised %s: %s\noptions top=%s ignore=%s ser=%s\n--- input ---\n%s'
                                 % (type(e).__name__, str(e)[:300], top, ign, ser, text)}]}
    sec = gen.pybind_sections(out)
    obs = refpy.observed_api(sec['WRAPPED'])
    exp = refpy.expected_api(mod, top, ign, ser)
    viol = []
    ctxs = 'kinds=%s top=%s ignore=%s serialization=%s' % (kinds, top, ign, ser)

    def add(sig, msg):
        viol.append({'sig': sig, 'msg': '%s\n%s\n--- input ---\n%s' % (msg, ctxs, text)})
    seen = {}
    for r in obs['records']:
        seen[r] = seen.get(r, 0) + 1
    expset = exp['records']
    for r, n in seen.items():
        if n > 1:
            add('C03|duplicate|%s|%s|%s' % (r[0], why(r, kinds), topk), 'registered %d times: %r' % (n, r))
        if r not in expset:
            add('C03|extra|%s|%s|%s|%s' % (r[0], why(r, kinds), topk, case['ignk']), 'exposed but not expected: %r' % (r,))
    for r in expset:
        if r not in seen:
            add('C03|missing|%s|%s|%s|%s' % (r[0], why(r, kinds), topk, case['ignk']), 'expected but not exposed: %r' % (r,))
    if sorted(obs['submodules']) != sorted(exp['submodules']):
        add('C03|submodules|%s' % topk, 'submodules differ: expected %r, observed %r' % (exp['submodules'], obs['submodules']))
    for p in obs['problems']:
        add('C03|structure|%s|%s' % (p[0], topk), 'structural problem %r' % (p,))
    # includes: every visited level's includes, as quoted includes
    inc = [l.strip() for l in sec['INCLUDES'].split('\n') if l.strip().startswith('#include "')]
    want_inc = ['#include "%s"' % h for h in exp['includes']]
    if inc != want_inc:
        add('C03|includes|%s' % topk, 'includes differ: expected %r, observed %r' % (want_inc, inc))
    return {'viol': viol, 'nrec': len(expset)}


def why(r, kinds):
    """Entity kind label of a record (from the naming scheme) + keyword marker."""
    import keyword
    name = ''
    for x in r[1:]:
        if isinstance(x, str):
            name += ' ' + x
    lab = 'other'
    for pre, k in (('Cf_', 'class_full'), ('Tc_', 'tclass'), ('Tt', 'typedef'), ('Ce_', 'enumclass'), ('Ba_', 'derived'),
                   ('De_', 'derived'), ('Dn_', 'derived'), ('En_', 'enum'), ('Es_', 'enum'), ('fn_', 'func'), ('other_', 'func'), ('tf_', 'tfunc'),
                   ('kVal_', 'var'), ('counter_', 'var'), ('Fw', 'fwdtypedef'), ('Kw_', 'kwnames'), ('Kp_', 'kwprops'),
                   ('Ek_', 'kwprops'), ('Se_', 'serial'), ('Sb_', 'serial'), ('Values', 'values')):
        if pre in name:
            lab = k
            break
    if lab == 'other' and 'kwnames' in kinds and r[0] == 'function':
        lab = 'kwnames'
    pyn = r[2] if len(r) > 2 and isinstance(r[2], str) else ''
    if keyword.iskeyword(pyn) or (pyn.endswith('_') and keyword.iskeyword(pyn[:-1])):
        lab += '/kw:' + pyn.rstrip('_')
    return lab


def replay(case):
    return check_case(case)['viol']


def run(ctx):
    cases = []

    def add(kinds, topk, ignk, ign, ser):
        cases.append({'kinds': kinds, 'top': topk, 'ignk': ignk, 'ignore': ign, 'ser': ser, 'seed': ctx.seed})
    for k in KINDS:
        for topk in TOPS:
            for ignk, ign in ignore_sets([k]).items():
                for ser in (False, True):
                    add([k], topk, ignk, ign, ser)
    pair_tops = list(TOPS) if ctx.thorough else ['root', 'd2']
    for k1, k2 in itertools.permutations(KINDS, 2):
        for topk in pair_tops:
            add([k1, k2], topk, 'none', [], False)
    if ctx.thorough:
        for k1, k2 in itertools.permutations(KINDS, 2):
            for ignk, ign in ignore_sets([k1, k2]).items():
                if ignk != 'none':
                    add([k1, k2], 'd1', ignk, ign, True)
        for ks in itertools.combinations(KINDS, 3):
            for topk in ('root', 'd2'):
                add(list(ks), topk, 'none', [], True)
    groups = {}
    for c in cases:
        groups.setdefault(tuple(c['kinds']), []).append(c)
    res = ctx.map(check_group, [{'cases': g} for g in groups.values()], chunksize=1)
    for _, r in res:
        for v in r.get('viol_cases', ()):
            ctx.add_violation(v['sig'], v['msg'], v['case'])
    return {
        'evaluations': len(cases),
        'distinct_nontrivial': len({(tuple(c['kinds']), c['top'], tuple(c['ignore']), c['ser']) for c in cases}),
        'rule': '13 entity kinds placed in each of 7 namespace scopes (one under a namespace that holds nothing but a namespace); singles x 9 top-namespace settings x all '
                'applicable ignore lists x serialization flag; all ordered pairs of kinds x %d top settings%s; '
                'every (module, options) pair is distinct; registrations scanned and compared as a multiset with the '
                'reference API' % (len(pair_tops), '; pairs x ignore lists; all unordered triples x 2 tops' if ctx.thorough else ''),
        'samples': [{'options': {k: v for k, v in cases[i].items() if k != 'seed'},
                     'input': D.render(build(cases[i]['kinds'], ctx.seed))[:1500]} for i in (0, len(cases) // 2)],
        'exhaustive': True,
        'registrations_expected_and_compared': sum(r.get('nrec', 0) for _, r in res),
    }
