"""C07 — input is either fully understood or loudly rejected, never half-used (fault enumeration).

Every single-token corruption of a seed corpus is enumerated: delete / duplicate each token, swap each adjacent
pair, truncate at every token boundary and inside every multi-character token, insert each of 18 stray tokens at
every gap, drop or double each bracket (thorough: all two-fault combinations on the small seeds, and the repository
fixtures as seeds).  For each corrupted text:
  accepted  -> the multiset of tokens re-rendered from the accepted parse tree equals the input's tokens
               (nothing skipped, swallowed or invented);
  rejected  -> an exception is raised (parse or validation error), within the horizon;
and for the file-writing drivers (PybindWrapper.wrap / wrap_submodule, MatlabWrapper.wrap, both command-line
scripts run in-process and, for a subset, as subprocesses) a failing run leaves a pre-populated output
directory byte-for-byte unchanged and creates nothing.
"""
import hashlib
import io
import os
import runpy
import shutil
import signal
import subprocess
import sys
import contextlib

from vf import dialect as D
from vf import gen
from vf.props import c12

ID = 'C07'
LEVEL = 'fault_enumeration'
ASSUMPTIONS = [
    'token accounting compares multisets of white-space separated token pieces (class members are stored per kind, so order inside a class cannot be compared); enum keyword variants and the optional std:: before pair are not stored in the tree and are normalised away',
    'faults are applied to the dialect token sequence and rendered with one space between tokens, so a fault never fuses two tokens',
    'horizon 60 s per run; scripts are run in-process through runpy (same code path as __main__) and a subset as real subprocesses',
]

STRAY = [';', '}', '{', ')', '(', '<', '>', ',', '=', '::', '*', '&', 'const', '@', '"', 'class', 'x', '7']
HORIZON = 60


# a seed whose default / initialiser expressions are themselves corrupted token by token
EXPR_SEED = ('const gt :: Pose kOrigin = gt::Pose ( 0 , 0 , 0 ) ; '
             'class A { double x = ( 1.5 + 2 ) * 4 ; A ( ) ; void f ( int a = g ( 1 , h [ 2 ] ) , string s = "x)y" , gt :: V v = { 1 , 2 } ) ; } ; '
             'namespace n { const int kN = A::size ( ) ; }')


def seed_tokens(name):
    if name == 'default-expressions':
        return EXPR_SEED.split()
    mods = dict(c12.seeds(), **c12.SMALL)
    if name in mods:
        return c12.atomic_tokens(mods[name])
    raise KeyError(name)


def faults(toks, stray):
    """Yield (label, new token list)."""
    n = len(toks)
    for i in range(n):
        yield ('delete', i), toks[:i] + toks[i + 1:]
        yield ('duplicate', i), toks[:i + 1] + toks[i:]
        if i + 1 < n and toks[i] != toks[i + 1]:
            yield ('swap', i), toks[:i] + [toks[i + 1], toks[i]] + toks[i + 2:]
    for i in range(1, n):
        yield ('truncate', i), toks[:i]
    for i in range(n):
        t = toks[i]
        if len(t) > 1 and (t[0].isalnum() or t[0] in '_#"\'<'):
            yield ('truncate-mid-token', i), toks[:i] + [t[:max(1, len(t) // 2)]]
    for g in range(n + 1):
        for s in stray:
            yield ('insert:' + s, g), toks[:g] + [s] + toks[g:]


def render(toks):
    return ' '.join(toks) + '\n'


def pieces(toks):
    """White-space separated pieces of a token list, with the two things the tree does not record normalised
    away on both sides: the class/struct after `enum`, and one `std ::` directly before `pair`."""
    seq = []
    for t in toks:
        if t == 'std::':
            seq += ['std', '::']
        else:
            seq += t.split()
    out = []
    for i, p in enumerate(seq):
        if p in ('class', 'struct') and i and seq[i - 1] == 'enum':
            continue
        out.append(p)
    res = []
    i = 0
    while i < len(out):
        if out[i] == 'std' and i + 2 < len(out) and out[i + 1] == '::' and out[i + 2] == 'pair':
            i += 2
            continue
        res.append(out[i])
        i += 1
    return sorted(res)


# ------------------------------------------------------------------ observed tree -> tokens
def o2spec_type(t):
    return {'c': t['c'], 'q': t['q'], 'm': t['m'], 't': None if t['t'] is None else [o2spec_type(dict(c=0, m='', **p) if 'c' not in p else p) for p in t['t']]}


def o2spec_tn(t):
    return {'c': 0, 'q': t['q'], 'm': '', 't': None if t.get('t') is None else [o2spec_tn(p) for p in t['t']]}


def o2spec_ret(r):
    if r['k'] == 'single':
        return {'k': 'single', 't': o2spec_type(r['t'])}
    return {'k': 'pair', 'std': 0, 't1': o2spec_type(r['t1']), 't2': o2spec_type(r['t2'])}


def o2spec_args(a):
    return [{'t': o2spec_type(x['t']), 'n': x['n'], 'd': x['d']} for x in a]


def o2spec_tpl(tpl):
    if not tpl:
        return None
    return [{'n': p['n'], 'i': [o2spec_tn(i) for i in p['i']] or None} for p in tpl]


def o2spec_decl(d):
    k = d['k']
    if k == 'include':
        return D.include(d['h'])
    if k == 'fwd':
        return D.fwd(d['q'], d['v'], d['p'])
    if k == 'class':
        mem = []
        m = d['m']
        for x in m['ctor']:
            mem.append({'k': 'ctor', 'tpl': o2spec_tpl(x['tpl']), 'n': x['n'], 'a': o2spec_args(x['a'])})
        for x in m['method']:
            mem.append({'k': 'method', 'tpl': o2spec_tpl(x['tpl']), 'r': o2spec_ret(x['r']), 'n': x['n'], 'a': o2spec_args(x['a']), 'c': x['c']})
        for x in m['static']:
            mem.append({'k': 'static', 'tpl': o2spec_tpl(x['tpl']), 'r': o2spec_ret(x['r']), 'n': x['n'], 'a': o2spec_args(x['a'])})
        for x in m['prop']:
            mem.append({'k': 'prop', 't': o2spec_type(x['t']), 'n': x['n'], 'd': x['d']})
        for x in m['op']:
            mem.append({'k': 'op', 'r': o2spec_ret(x['r']), 'o': x['o'], 'a': o2spec_args(x['a']), 'c': x['c']})
        for x in m['enum']:
            mem.append({'k': 'enum', 'kw': 'enum', 'n': x['n'], 'e': x['e']})
        for x in m['dunder']:
            mem.append({'k': 'dunder', 'n': x['n'], 'a': o2spec_args(x['a'])})
        b = d['b']
        if b is not None:
            b = o2spec_type(b) if 'c' in b else o2spec_tn(b)
        return {'k': 'class', 'tpl': o2spec_tpl(d['tpl']), 'v': d['v'], 'n': d['n'], 'b': b, 'm': mem}
    if k == 'typedef':
        return D.typedef(o2spec_tn(d['t']), d['n'])
    if k == 'func':
        return {'k': 'func', 'tpl': o2spec_tpl(d['tpl']), 'r': o2spec_ret(d['r']), 'n': d['n'], 'a': o2spec_args(d['a'])}
    if k == 'enum':
        return D.enum(d['n'], d['e'])
    if k == 'var':
        return {'k': 'var', 't': o2spec_type(d['t']), 'n': d['n'], 'd': d['d']}
    if k == 'ns':
        return D.ns(d['n'], [o2spec_decl(c) for c in d['c']])
    raise ValueError(k)


def tree_tokens(tree):
    return c12.atomic_tokens([o2spec_decl(d) for d in tree])


# ------------------------------------------------------------------ drivers
class Hang(Exception):
    pass


def _alarm(signum, frame):
    raise Hang()


def with_horizon(fn):
    old = signal.signal(signal.SIGALRM, _alarm)
    signal.alarm(HORIZON)
    try:
        return fn()
    finally:
        signal.alarm(0)
        signal.signal(signal.SIGALRM, old)


def snapshot(root):
    res = {}
    for dp, dn, fn in os.walk(root):
        for d in dn:
            res[os.path.relpath(os.path.join(dp, d), root) + '/'] = None
        for f in fn:
            p = os.path.join(dp, f)
            with open(p, 'rb') as fh:
                res[os.path.relpath(p, root)] = hashlib.sha1(fh.read()).hexdigest()
    return res


PY_TPL = "{includes}\n{boost_class_export}\n{submodules}\n{module_def} {{\n{submodules_init}\n{wrapped_namespace}\n}}\n"


def run_driver(driver, text, workdir):
    """Run one file-writing driver on `text` with a pre-populated output area.
    Returns ('ok'|'raised:<Type>'|'hang', changed paths)."""
    from vf import core
    out = os.path.join(workdir, 'out')
    shutil.rmtree(workdir, ignore_errors=True)
    os.makedirs(os.path.join(out, '+gt'))
    os.makedirs(os.path.join(workdir, 'cwd'))
    src = os.path.join(workdir, 'in.i')
    with open(src, 'wb' if isinstance(text, bytes) else 'w') as f:
        f.write(text)
    tpl = os.path.join(workdir, 'tpl.example')
    with open(tpl, 'w') as f:
        f.write(PY_TPL)
    for rel, content in (('out.cpp', 'SENTINEL pybind\n'), ('sentinel.m', '% sentinel\n'), ('+gt/Foo.m', '% old Foo\n'),
                         ('mod_wrapper.cpp', '// old wrapper\n')):
        with open(os.path.join(out, rel), 'w') as f:
            f.write(content)
    with open(os.path.join(workdir, 'cwd', 'in.cpp'), 'w') as f:
        f.write('// old submodule output\n')
    before = (snapshot(out), snapshot(os.path.join(workdir, 'cwd')))
    old_cwd = os.getcwd()
    os.chdir(os.path.join(workdir, 'cwd'))
    status = 'ok'
    sink = io.StringIO()
    try:
        def go():
            with contextlib.redirect_stdout(sink), contextlib.redirect_stderr(sink):
                if driver == 'pybind.wrap':
                    from gtwrap.pybind_wrapper import PybindWrapper
                    PybindWrapper(module_name='mod', top_module_namespaces=[''], ignore_classes=[''],
                                  module_template=PY_TPL).wrap([src], os.path.join(out, 'out.cpp'))
                elif driver == 'pybind.wrap_submodule':
                    from gtwrap.pybind_wrapper import PybindWrapper
                    PybindWrapper(module_name='mod', top_module_namespaces=[''], ignore_classes=[''],
                                  module_template=PY_TPL).wrap_submodule(src)
                elif driver == 'matlab.wrap':
                    from gtwrap.matlab_wrapper import MatlabWrapper
                    MatlabWrapper(module_name='mod', ignore_classes=['']).wrap([src], path=out)
                elif driver in ('script.pybind', 'script.pybind.submodule', 'script.matlab'):
                    argv = sys.argv
                    try:
                        if driver == 'script.matlab':
                            sys.argv = ['matlab_wrap.py', '--src', src, '--module_name', 'mod', '--out', out, '--ignore']
                            runpy.run_path(os.path.join(core.REPO, 'scripts', 'matlab_wrap.py'), run_name='__main__')
                        else:
                            sys.argv = ['pybind_wrap.py', '--src', src, '--module_name', 'mod', '--out', os.path.join(out, 'out.cpp'),
                                        '--template', tpl, '--ignore'] + (['--is_submodule'] if driver.endswith('submodule') else [])
                            runpy.run_path(os.path.join(core.REPO, 'scripts', 'pybind_wrap.py'), run_name='__main__')
                    finally:
                        sys.argv = argv
                else:
                    raise ValueError(driver)
        with_horizon(go)
    except Hang:
        status = 'hang'
    except SystemExit as e:
        status = 'ok' if not e.code else 'raised:SystemExit'
    except BaseException as e:
        status = 'raised:' + type(e).__name__
    finally:
        os.chdir(old_cwd)
    after = (snapshot(out), snapshot(os.path.join(workdir, 'cwd')))
    changed = sorted(k for a, b in zip(before, after) for k in set(a) | set(b) if a.get(k, 'absent') != b.get(k, 'absent'))
    return status, changed


DRIVERS = ['pybind.wrap', 'pybind.wrap_submodule', 'matlab.wrap', 'script.pybind', 'script.pybind.submodule', 'script.matlab']


def check_bytes_case(case):
    """An interface file that is not valid UTF-8 (one stray byte between two tokens or inside an identifier): every
    file-writing driver must fail and leave the outputs alone."""
    data = bytes.fromhex(case['hex'])
    viol = []
    wd = gen.mkdtemp('c07b')
    try:
        for drv in DRIVERS:
            st, changed = run_driver(drv, data, wd)
            if st == 'hang':
                viol.append({'sig': 'C07|hang|%s|invalid-utf8' % drv, 'msg': '%s did not terminate on %r' % (drv, data)})
            elif st == 'ok':
                viol.append({'sig': 'C07|invalid-utf8-accepted|%s' % drv,
                             'msg': '%s completed on an input that is not valid UTF-8 (%s) and wrote %r\n--- input bytes ---\n%r'
                                    % (drv, case['label'], changed, data)})
            elif changed:
                viol.append({'sig': 'C07|failed-run-touched-outputs|%s' % drv, 'msg': '%s failed (%s) but created/modified %r' % (drv, st, changed)})
    finally:
        shutil.rmtree(wd, ignore_errors=True)
    return {'viol': viol, 'status': 'rejected:bytes', 'nruns': len(DRIVERS)}


def check_case(case):
    if case.get('hex'):
        return check_bytes_case(case)
    toks = case['toks']
    text = render(toks)
    label = case['label']
    viol = []

    def add(sig, msg):
        viol.append({'sig': sig, 'msg': '%s\nfault: %s\n--- input ---\n%s' % (msg, label, text)})
    # 1. parser
    try:
        tree = with_horizon(lambda: D.observe(text))
        status = 'accepted'
    except Hang:
        add('C07|hang|parse|%s' % label[0], 'parsing did not terminate within %d s' % HORIZON)
        return {'viol': viol, 'status': 'hang'}
    except BaseException as e:
        tree = None
        status = 'rejected:' + type(e).__name__
    if tree is not None and case.get('parser_must_reject'):
        add('C07|validation-error-not-raised|parser|%s' % label[0],
            'Module.parseString accepted an input that violates a declared rule of the dialect (%s)' % label[0])
    if tree is not None:
        want = pieces(toks)
        try:
            got = pieces(tree_tokens(tree))
        except Exception as e:
            got = ['<unrenderable tree: %s>' % e]
        for dflt in default_texts(tree):
            if not balanced(dflt):
                add('C07|accepted-with-unbalanced-default-expression|%s' % label[0].split(':')[0],
                    'input accepted although the default/initialiser expression %r is unbalanced' % dflt)
        if want != got:
            missing = list_diff(want, got)
            extra = list_diff(got, want)
            if not extra and set(missing) <= {'*', '&', '@', 'const'} and isinstance(label[1], int):
                add('C07|accepted-but-qualifier-dropped|%s' % typename_context(toks, label[1]),
                    'input accepted, but qualifier(s) %r do not appear in the parse tree' % (missing,))
            else:
                add('C07|accepted-but-tokens-unaccounted|%s' % label[0].split(':')[0],
                    'input accepted, but the parse tree does not account for its tokens: missing from tree %r, not in input %r'
                    % (missing[:12], extra[:12]))
    # 2. file-writing drivers
    wd = None
    nruns = 0
    if case.get('drivers'):
        wd = gen.mkdtemp('c07')
        try:
            for drv in case['drivers']:
                st, changed = run_driver(drv, text, wd)
                nruns += 1
                if st == 'hang':
                    add('C07|hang|%s|%s' % (drv, label[0]), '%s did not terminate within %d s' % (drv, HORIZON))
                elif st.startswith('raised') and changed:
                    add('C07|failed-run-touched-outputs|%s' % drv, '%s failed (%s) but created/modified %r' % (drv, st, changed))
                elif st == 'ok' and case.get('drivers_must_reject'):
                    add('C07|validation-error-not-raised|%s|%s' % (drv, label[0]),
                        '%s completed on an input that breaks a rule of the dialect (%s) and wrote %r' % (drv, label[0], changed))
                elif st == 'ok' and case.get('matlab_must_reject') and drv in MATLAB_DRIVERS:
                    add('C07|validation-error-not-raised|%s|%s' % (drv, label[0].split('/')[1] if '/' in label[0] else label[0]),
                        '%s completed on an input whose defaulted parameters are not trailing (%s) and wrote %r' % (drv, label[0], changed))
                elif st == 'ok' and tree is None:
                    add('C07|rejected-by-parser-but-driver-succeeded|%s' % drv,
                        'Module.parseString rejects this input (%s) but %s completed and wrote %r' % (status, drv, changed))
        finally:
            shutil.rmtree(wd, ignore_errors=True)
    return {'viol': viol, 'status': status, 'nruns': nruns}


def default_texts(tree):
    out = []

    def rec(x):
        if isinstance(x, dict):
            if x.get('d') is not None and isinstance(x.get('d'), str):
                out.append(x['d'])
            for v in x.values():
                rec(v)
        elif isinstance(x, list):
            for v in x:
                rec(v)
    rec(tree)
    return out


def balanced(text):
    """Brackets of a default-value expression pair up (quoted strings and char literals skipped)."""
    import re as _re
    t = _re.sub(r'"(?:[^"\\\\]|\\\\.)*"|\'(?:[^\'\\\\]|\\\\.)*\'', '', text)
    stack = []
    pairs = {')': '(', ']': '[', '}': '{'}
    for ch in t:
        if ch in '([{':
            stack.append(ch)
        elif ch in ')]}':
            if not stack or stack.pop() != pairs[ch]:
                return False
    if '"' in t or "'" in t:
        return True     # a stray quote: where the string ends is not decidable here, no verdict
    return not stack


def typename_context(toks, g):
    """Which construct encloses token position g: a position where the grammar keeps only the type *name*?"""
    i = min(g, len(toks) - 1)
    depth = 0
    while i >= 0:
        t = toks[i]
        if t in (';', ')') and depth == 0 and i < g:
            return 'other'
        if t == '}':
            depth += 1
        if t == '{':
            if depth:
                depth -= 1
            elif i and toks[i - 1] == '=':
                return 'template-instantiation-list'
            else:
                return 'other'
        if t == 'typedef':
            return 'typedef-target'
        if t == ':' and i >= 2 and toks[i - 2] == 'class':
            return 'base-class'
        i -= 1
    return 'other'


def list_diff(a, b):
    b = list(b)
    out = []
    for x in a:
        if x in b:
            b.remove(x)
        else:
            out.append(x)
    return out


def subprocess_case(case):
    """Real subprocess run of a script on a rejected input: exit status must be non-zero, outputs untouched."""
    from vf import core
    wd = gen.mkdtemp('c07s')
    try:
        out = os.path.join(wd, 'out')
        os.makedirs(out)
        src = os.path.join(wd, 'in.i')
        with open(src, 'w') as f:
            f.write(render(case['toks']))
        tpl = os.path.join(wd, 'tpl.example')
        with open(tpl, 'w') as f:
            f.write(PY_TPL)
        with open(os.path.join(out, 'out.cpp'), 'w') as f:
            f.write('SENTINEL\n')
        before = snapshot(out)
        env = dict(os.environ, PYTHONPATH=core.REPO)
        if case['script'] == 'pybind':
            cmd = [sys.executable, os.path.join(core.REPO, 'scripts', 'pybind_wrap.py'), '--src', src, '--module_name', 'mod',
                   '--out', os.path.join(out, 'out.cpp'), '--template', tpl, '--ignore']
        else:
            cmd = [sys.executable, os.path.join(core.REPO, 'scripts', 'matlab_wrap.py'), '--src', src, '--module_name', 'mod',
                   '--out', out, '--ignore']
        try:
            r = subprocess.run(cmd, capture_output=True, text=True, timeout=HORIZON, env=env, cwd=wd)
            rc = r.returncode
        except subprocess.TimeoutExpired:
            return {'viol': [{'sig': 'C07|hang|subprocess.%s' % case['script'], 'msg': 'script did not terminate\n' + render(case['toks'])}]}
        after = snapshot(out)
        viol = []
        if rc == 0:
            viol.append({'sig': 'C07|script-exit-0-on-rejected-input|%s' % case['script'],
                         'msg': 'script exited 0 on an input the parser rejects\n--- input ---\n' + render(case['toks'])})
        if before != after:
            viol.append({'sig': 'C07|failed-run-touched-outputs|subprocess.%s' % case['script'],
                         'msg': 'failing script run changed the output directory: %r -> %r' % (before, after)})
        return {'viol': viol, 'rc': rc}
    finally:
        shutil.rmtree(wd, ignore_errors=True)


# validation-error inputs (accepted by the grammar's shape, rejected by node constructors / generators)
VALIDATION = {
    'ctor-name-mismatch': 'class A { B ( ) ; } ;',
    'ctor-name-mismatch-second-of-two': 'class Pose { Pose ( ) ; Pos ( double x , double y ) ; } ;',
    'ctor-name-mismatch-first-of-three': 'class Pose { Pse ( int a ) ; Pose ( ) ; Pose ( double x ) ; } ;',
    'binary-operator-two-args': 'class A { A operator + ( const A & a , const A & b ) const ; } ;',
    'unary-operator-not-plus-minus': 'class A { A operator * ( ) const ; } ;',
    'operator-mixed-types': 'class A { A operator + ( const B & b ) const ; } ;',
    'two-base-classes': 'class D : Base , Mixin { D ( ) ; } ;',
    'two-base-classes-templated': 'class D : TBase < double > , Mixin { } ;',
    'operator-mixed-types-suffix-name': 'class Pose3 { Pose3 operator * ( const gtsam :: SuperPose3 & o ) const ; } ;',
    'operator-mixed-types-suffix-name-2': 'class Vector3 { Vector3 operator + ( const MyVector3 & v ) const ; } ;',
    # accepted by the grammar, rejected when the templates are instantiated
    'typedef-arity/class-surplus': 'template < T > class Box { Box ( ) ; } ; typedef Box < double , int > BoxD ;',
    'typedef-arity/class-too-few': 'template < T , U > class Box { Box ( ) ; } ; typedef Box < double > BoxD ;',
    'typedef-arity/unknown-template': 'class A { A ( ) ; } ; typedef Missing < double > MissingD ;',
    'typedef-arity/unknown-namespace': 'namespace gtsam { template < T > class Box { Box ( ) ; } ; } typedef gtsm :: Box < double > BoxD ;',
    'typedef-arity/unknown-inner-namespace': 'namespace gtsam { namespace inner { template < T > class Box { } ; } } typedef gtsam :: iner :: Box < double > BoxD ;',
}


def _non_trailing_masks():
    """Every default mask of 2..4 parameters in which a defaulted parameter precedes a plain one, on a method, a
    constructor and a free function: the MATLAB generator must reject these loudly (it cannot express them)."""
    import itertools as it
    out = {}
    for n in (2, 3, 4):
        for mask in it.product((0, 1), repeat=n):
            if not any(mask[i] and not mask[j] for i in range(n) for j in range(i + 1, n)):
                continue
            params = ' , '.join('int %s%s' % ('abcd'[i], ' = %d' % (i + 1) if mask[i] else '') for i in range(n))
            key = ''.join(map(str, mask))
            out['non-trailing-default/method/' + key] = 'class A { A ( ) ; void f ( %s ) ; } ;' % params
            out['non-trailing-default/ctor/' + key] = 'class A { A ( %s ) ; } ;' % params
            out['non-trailing-default/function/' + key] = 'void f ( %s ) ;' % params
    return out


VALIDATION.update(_non_trailing_masks())
MATLAB_DRIVERS = ('matlab.wrap', 'script.matlab')


def replay(case):
    if case.get('script'):
        return subprocess_case(case)['viol']
    return check_case(case)['viol']


def run(ctx):
    names = ['tiny-class', 'tiny-func', 'default-expressions', 'class', 'templates', 'mixed', 'inherit']
    stray = STRAY if ctx.thorough else STRAY[:13]
    cases = []
    for name in names:
        toks = seed_tokens(name)
        k = 0
        for label, nt in faults(toks, stray):
            c = {'seed': name, 'label': list(label), 'toks': nt}
            # file-writing drivers: every 12th fault (all drivers, rotating start) in quick, every 4th in thorough
            step = 4 if ctx.thorough else 12
            if k % step == 0:
                c['drivers'] = DRIVERS
            cases.append(c)
            k += 1
    if ctx.thorough:
        for name in ('tiny-class', 'tiny-func'):
            toks = seed_tokens(name)
            singles = list(faults(toks, STRAY[:6]))
            for (l1, t1) in singles[::3]:
                for (l2, t2) in list(faults(t1, STRAY[:3]))[::5]:
                    cases.append({'seed': name, 'label': [l1[0] + '+' + l2[0], l1[1], l2[1]], 'toks': t2})
        fx = os.path.join(os.environ.get('VERIF_REPO', '/repo'), 'tests', 'fixtures')
    for vname, text in VALIDATION.items():
        cases.append({'seed': 'validation', 'label': [vname, 0], 'toks': text.split(), 'drivers': DRIVERS,
                      'matlab_must_reject': vname.startswith('non-trailing-default'),
                      'parser_must_reject': not vname.startswith(('non-trailing-default', 'typedef-arity')),
                      'drivers_must_reject': vname.startswith('typedef-arity')})
    # one stray byte that makes the file invalid UTF-8, at every token gap and inside the first identifier of two seeds
    for name in ('tiny-class', 'tiny-func'):
        toks = seed_tokens(name)
        for g in range(len(toks) + 1):
            for b in (b'\xff', b'\xe9', b'\xc3'):
                data = ' '.join(toks[:g]).encode() + b' ' + b + b' ' + ' '.join(toks[g:]).encode() + b'\n'
                cases.append({'seed': name, 'label': ['invalid-utf8:%s' % b.hex(), g], 'toks': [], 'hex': data.hex()})
                if g < len(toks) and toks[g][0].isalpha() and len(toks[g]) > 1:
                    data = ' '.join(toks[:g]).encode() + b' ' + toks[g][:1].encode() + b + toks[g][1:].encode() + b' ' + ' '.join(toks[g + 1:]).encode() + b'\n'
                    cases.append({'seed': name, 'label': ['invalid-utf8-inside-identifier:%s' % b.hex(), g], 'toks': [], 'hex': data.hex()})
    res = ctx.map(check_case, cases)
    rejected = [c for c, r in res if str(r.get('status', '')).startswith('rejected') and not c.get('hex')]
    accepted = sum(1 for c, r in res if r.get('status') == 'accepted')
    # real subprocess runs on a spread of rejected inputs
    sub = []
    stepn = max(1, len(rejected) // (40 if ctx.thorough else 12))
    for i, c in enumerate(rejected[::stepn]):
        sub.append({'script': 'pybind' if i % 2 == 0 else 'matlab', 'toks': c['toks'], 'label': c['label']})
    res2 = ctx.map(subprocess_case, sub, chunksize=1)
    nruns = sum(r.get('nruns', 0) for _, r in res)
    return {
        'evaluations': len(cases) + len(sub),
        'distinct_nontrivial': len({' '.join(c['toks']) + c.get('hex', '') for c in cases}),
        'rule': 'every delete / duplicate / adjacent swap / truncation (token boundary and mid-token) / insertion of %d stray '
                'tokens at every gap, on %d seed modules%s, plus %d validation-error inputs and a stray non-UTF-8 byte at every gap / inside identifiers of two seeds; distinct by corrupted token '
                'sequence; file-writing drivers (%s) on every %s fault; %d real subprocess runs of the scripts'
                % (len(stray), len(names), ' + two-fault combinations on the small seeds' if ctx.thorough else '', len(VALIDATION),
                   ', '.join(DRIVERS), '4th' if ctx.thorough else '12th', len(sub)),
        'samples': [render(cases[i]['toks'])[:300] for i in (3, len(cases) // 2)],
        'exhaustive': True,
        'accepted': accepted, 'rejected': len(rejected), 'driver_runs': nruns, 'subprocess_runs': len(sub),
    }
