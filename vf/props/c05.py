"""C05 — MATLAB call-site ids and the MEX dispatch table always agree (explicit-state model checking on the real code).

State machine = the real MatlabWrapper consuming declarations; a transition appends one declaration shape from a
23-letter alphabet to the interface; the state reached is rebuilt by running the real generator on the whole
sequence (live objects are never copied).  States are canonicalised as (next id, multiset of allocated roles).
The invariant is evaluated in every state, i.e. on every generated toolbox:
    ids at .m call sites == case labels == {0..n-1}; every id has exactly one call site and one case; every case
    calls exactly one routine; every routine is defined once and called from exactly one case; and the role of the
    call site (class, constructor/collector/upcast/destructor/method/static/getter/setter/function/serialization,
    member name, arity) -- read off the .m AST -- equals the role of the routine -- read off its C++ body.
"""
import itertools
import re

from vf import dialect as D
from vf import gen, minimatlab as mm
from vf.dialect import T, arg, single, pair

ID = 'C05'
LEVEL = 'model_checking'
ASSUMPTIONS = [
    'the .m files are read with the mini-MATLAB parser (vf/minimatlab.py); a file it cannot parse is reported as inconclusive, not as a violation',
    'roles are recognised from the generated routine bodies (collector_<C>.insert, new <C>(, obj-><m>(, <C>::<m>(, checkArguments) and from the enclosing .m function and guard',
    'states are canonicalised as (next id, multiset of (role kind)) -- the numbering of an appended declaration depends only on the counter',
]


def shape(k, i):
    """Declaration(s) for alphabet letter k at sequence position i (names carry the position)."""
    s = str(i)
    I = T('int')
    if k == 'plain':
        C = 'Pa' + s
        return [D.cls(C, [D.ctor(C), D.method(single(I), 'ma' + s, [arg(I, 'a')])])]
    if k == 'ctors':
        C = 'Pb' + s
        return [D.cls(C, [D.ctor(C), D.ctor(C, [arg(I, 'a'), arg(T('double'), 'b', '1.5'), arg(T('string'), 'c', '"x"')])])]
    if k == 'noctor':
        C = 'Pc' + s
        return [D.cls(C, [D.method(single(I), 'mc' + s, [], 1)])]
    if k == 'virtual':
        C = 'Va' + s
        return [D.cls(C, [D.ctor(C), D.method(single(I), 'mv' + s, [])], v=1)]
    if k == 'derived':
        B, C = 'Vb' + s, 'Vd' + s
        return [D.cls(B, [D.method(single(I), 'mb' + s, [], 1)], v=1),
                D.cls(C, [D.ctor(C), D.ctor(C, [arg(I, 'a', '3')]), D.method(single(I), 'md' + s, [])], v=1, b=T(B))]
    if k == 'overloads':
        C = 'Po' + s
        return [D.cls(C, [D.ctor(C), D.method(single(I), 'zz' + s, [arg(I, 'a')]),
                          D.method(single(I), 'aa' + s, [arg(I, 'a'), arg(I, 'b', '2')]),
                          D.method(single(T('void')), 'zz' + s, [arg(T('double'), 'x'), arg(T('string'), 'y', '"q"'), arg(I, 'z', '1')]),
                          D.method(single(I), 'aa' + s, [], 1)])]
    if k == 'statics':
        C = 'Ps' + s
        return [D.cls(C, [D.static(single(I), 'sb' + s, [arg(I, 'a')]), D.static(single(I), 'sa' + s, [arg(I, 'a', '1')]),
                          D.static(single(T('void')), 'sb' + s, []), D.method(single(I), 'mm' + s, [])])]
    if k == 'props':
        C = 'Pp' + s
        return [D.cls(C, [D.ctor(C), D.prop(I, 'pa' + s), D.prop(T('double'), 'pb' + s), D.prop(T('double', 1), 'pconst' + s),
                          D.method(single(I), 'mp' + s, [])])]
    if k == 'tclass':
        C = 'Tc' + s
        return [D.cls(C, [D.ctor(C, [arg(T('T'), 'v')]), D.method(single(T('T')), 'get', []), D.static(single(I), 'st', [])],
                      tpl=[D.tparam('T', [T('double'), T('string')])])]
    if k == 'serial':
        C = 'Se' + s
        return [D.ns('sn' + s, [D.cls(C, [D.ctor(C), D.method(single(T('void')), 'serialize', [], 1),
                                          D.method(single(I), 'after', [], 1), D.static(single(I), 'st', [])])])]
    if k == 'ignored':
        C = 'Ig' + s
        return [D.ns('ig' + s, [D.cls(C, [D.ctor(C), D.method(single(I), 'mi', [])]), D.cls('Keep' + s, [D.ctor('Keep' + s)])])]
    if k == 'func':
        return [D.func(single(I), 'fa' + s, [arg(I, 'a')])]
    if k == 'funcs':
        return [D.func(single(I), 'fb' + s, [arg(I, 'a'), arg(T('double'), 'b', '2.5')]),
                D.func(single(T('void')), 'fb' + s, [arg(T('string'), 's')]), D.func(single(I), 'fc' + s, [])]
    if k == 'tfunc':
        return [D.func(single(T('T')), 'ft' + s, [arg(T('T'), 'a')], tpl=[D.tparam('T', [T('double'), T('string')])])]
    if k == 'enum':
        return [D.enum('En' + s, ['A', 'B'])]
    if k == 'funcs-split':
        # overloads of one free function separated by other declarations
        return [D.func(single(I), 'fs' + s, [arg(I, 'a')]), D.func(single(I), 'fo' + s, [arg(T('double'), 'x')]),
                D.cls('Mid' + s, [D.ctor('Mid' + s)]), D.func(single(I), 'fs' + s, [arg(I, 'a'), arg(I, 'b')])]
    if k == 'funcs-reopened':
        # overloads of one free function in two blocks of the same namespace
        return [D.ns('ro' + s, [D.func(single(I), 'fr', [arg(I, 'a')]), D.cls('Ra' + s, [D.ctor('Ra' + s)])]),
                D.ns('ro' + s, [D.func(single(I), 'fr', [arg(T('double'), 'x'), arg(I, 'b')]), D.func(single(I), 'gr', [])])]
    if k == 'plain-derived':
        B, C = 'Nb' + s, 'Nd' + s
        return [D.cls(B, [D.ctor(B), D.static(single(I), 'unit', [])]),
                D.cls(C, [D.ctor(C), D.ctor(C, [arg(I, 'r')]), D.method(single(I), 'area', [], 1)], b=T(B))]
    if k == 'funcs3':
        # two overloads that MATLAB cannot tell apart (int / size_t are both 'numeric'), and more after them
        return [D.func(single(I), 'fg' + s, [arg(I, 'a')]), D.func(single(I), 'fg' + s, [arg(T('size_t'), 'n')]),
                D.func(single(I), 'fg' + s, [arg(T('double'), 'x'), arg(I, 'y')]), D.func(single(I), 'fg' + s, [arg(T('string'), 't'), arg(I, 'y'), arg(I, 'z', '1')]),
                D.cls('Mg' + s, [D.ctor('Mg' + s), D.method(single(I), 'mg', [arg(I, 'a')]), D.method(single(I), 'mg', [arg(T('size_t'), 'n')]),
                                 D.method(single(I), 'mg', [arg(T('double'), 'x'), arg(I, 'y')])])]
    if k == 'underscore':
        C = 'Cal3_S' + s
        return [D.ns('un' + s, [D.cls(C, [D.ctor(C), D.prop(I, 'fx'), D.prop(T('double'), 'max_set_get_size'), D.method(single(I), 'k_get', [], 1)], v=1)])]
    if k == 'twins':
        # the same class, static method, helper namespace and free function (identical signatures) in two sibling scopes
        def half(side):
            return D.ns(side + s, [D.cls('Grid', [D.ctor('Grid'), D.static(single(T('double')), 'Spacing', [arg(T('double'), 'a', '1.0')]),
                                                  D.static(single(I), 'Create', [arg(T('double'), 'x'), arg(T('double'), 'y', '0.0'), arg(T('double'), 'th', '0.0')]),
                                                  D.method(single(I), 'size', [arg(I, 'k', '2')], 1)], v=1),
                                   D.ns('util', [D.func(single(T('double')), 'norm', [arg(T('double'), 'x'), arg(I, 'p', '2')]),
                                                 # a second function whose name differs in letter case only
                                                 D.func(single(T('double')), 'Norm', [arg(T('double'), 'x')])])])
        return [half('left'), half('right')]
    if k == 'rolenames':
        C = 'Rn' + s
        return [D.cls(C, [D.ctor(C), D.method(single(T('string')), 'string_serialize', [], 1),
                          D.static(single(I), 'string_deserialize', [arg(T('string'), 'x')]),
                          # a static and an instance method of one name: the role of a routine follows the kind of member
                          D.static(single(I), 'Reset', [arg(I, 'start')]),
                          D.method(single(I), 'Reset', [arg(I, 'start'), arg(I, 'step')], 1),
                          D.prop(I, 'value')])]
    if k == 'ns':
        C = 'Nc' + s
        return [D.ns('nn' + s, [D.cls(C, [D.ctor(C), D.method(single(I), 'mn', [])], v=1), D.func(single(I), 'fn' + s, [arg(I, 'a', '1')]),
                                D.ns('deep', [D.cls('Nd' + s, [D.ctor('Nd' + s), D.method(single(I), 'md', [])], v=1)])])]
    raise ValueError(k)


ALPHABET = ['plain', 'ctors', 'noctor', 'virtual', 'derived', 'overloads', 'statics', 'props', 'tclass', 'serial',
            'ignored', 'func', 'funcs', 'tfunc', 'enum', 'ns', 'funcs-split', 'plain-derived', 'rolenames', 'funcs3', 'underscore', 'twins', 'funcs-reopened']
CORE = ['plain', 'derived', 'overloads', 'props', 'funcs', 'ns']
ALPHA4 = ['plain', 'ctors', 'virtual', 'derived', 'overloads', 'statics', 'props', 'tclass', 'serial', 'funcs', 'ns', 'plain-derived']


def build(seq):
    mod = []
    ignore = []
    for i, k in enumerate(seq):
        mod += shape(k, i)
        if k == 'ignored':
            ignore.append('ig%d::Ig%d' % (i, i))
    return mod, ignore


# ------------------------------------------------------------------ roles on the MATLAB side
def site_roles(tree, wrapper):
    """-> list of (id, role tuple, where) for every call site; plus list of inconclusive files."""
    sites = []
    inconclusive = []
    for path, text in sorted(tree.items()):
        if not path.endswith('.m'):
            continue
        parts = path[:-2].split('/')
        nsparts = [p[1:] for p in parts[:-1]]
        try:
            ast = mm.parse_file(text, path)
        except mm.ParseError as e:
            inconclusive.append((path, str(e)[:120]))
            continue
        if isinstance(ast, dict):
            if ast['enumeration']:
                continue
            tag = ''.join(nsparts) + ast['name']
            for f in ast['methods']:
                for cid, args, guards in _calls(f['body'], wrapper):
                    sites.append((cid, _class_role(ast, f, tag, args, guards, False), path))
            for f in ast['static']:
                for cid, args, guards in _calls(f['body'], wrapper):
                    sites.append((cid, _class_role(ast, f, tag, args, guards, True), path))
        else:
            f = ast[1]
            for cid, args, guards in _calls(f['body'], wrapper):
                cnt = _count(guards)
                sites.append((cid, ('function', ''.join(nsparts), f['name'], cnt), path))
    return sites, inconclusive


def _calls(body, wrapper, guards=()):
    out = []
    for st in body:
        if st[0] == 'if':
            for cond, b in st[1]:
                out += _calls(b, wrapper, guards + (cond,))
            if st[2] is not None:
                out += _calls(st[2], wrapper, guards + (('else',),))
        else:
            for cid, args, nout, targets in mm.wrapper_calls(st, wrapper):
                out.append((cid, args, guards))
    return out


def _count(guards):
    for g in reversed(guards):
        if g[0] == 'else':
            continue
        f = mm.guard_facts(g)
        if f['count'] is not None and not f['key']:
            return f['count']
    return None


def _class_role(ast, f, tag, args, guards, static):
    name = f['name']
    if not static and name == ast['name']:
        key = any(g[0] != 'else' and mm.guard_facts(g)['key'] for g in guards) or \
            any(g[0] != 'else' and 'uint64' in repr(g) for g in guards)
        if key:
            if args == [('name', 'my_ptr')]:
                return ('collector', tag, None, None)
            return ('upcast', ast['name'], None, None)
        return ('constructor', tag, None, _count(guards))
    if not static and name == 'delete':
        return ('deconstructor', tag, None, None)
    if not static and name.startswith('get.'):
        return ('getter', tag, name[4:], None)
    if not static and name.startswith('set.'):
        return ('setter', tag, name[4:], None)
    # (string_serialize / string_deserialize call sites look like ordinary method calls; whether they must reach
    #  generated serialization code or a user method of that name is decided from the interface, see roles_agree)
    return ('static' if static else 'method', tag, name, _count(guards))


# ------------------------------------------------------------------ roles on the C++ side
def routine_role(name, body):
    base = re.sub(r'_\d+$', '', name)
    b = body
    m = re.match(r'^(\w+?)_collectorInsertAndMakeBase$', base)
    if m:
        tag = m.group(1)
        ok = ('collector_%s.insert(self)' % tag) in b
        return ('collector', tag, None, None) if ok else ('collector-body-mismatch', tag, None, None)
    m = re.match(r'^(\w+?)_upcastFromVoid$', base)
    if m:
        return ('upcast', m.group(1), None, None) if 'static_pointer_cast' in b else ('upcast-body-mismatch', m.group(1), None, None)
    m = re.match(r'^(\w+?)_constructor$', base)
    if m:
        tag = m.group(1)
        n = len(re.findall(r'=\s*\*?unwrap', b))
        ok = ('collector_%s.insert(self)' % tag) in b and re.search(r'new Shared\(new ', b)
        return ('constructor', tag, None, n) if ok else ('constructor-body-mismatch', tag, None, n)
    m = re.match(r'^(\w+?)_deconstructor$', base)
    if m:
        tag = m.group(1)
        ok = 'delete self' in b and ('collector_%s.find(self)' % tag) in b
        return ('deconstructor', tag, None, None) if ok else ('deconstructor-body-mismatch', tag, None, None)
    # generated (de)serialization is recognised by its body, not by its name: a user may declare a method
    # called string_serialize, whose routine must then be an ordinary method routine
    m = re.match(r'^(\w+?)_string_serialize$', base)
    if m and 'out_archive << *obj' in b:
        return ('serialize', m.group(1), None, None)
    m = re.match(r'^(\w+?)_string_deserialize$', base)
    if m and 'in_archive >> *output' in b:
        return ('deserialize', m.group(1), None, None)
    ca = re.search(r'checkArguments\("([^"]*)",nargout,nargin(-1)?,(\d+)\)', b)
    mo = re.search(r'auto obj = unwrap_shared_ptr<[^>]*(?:<[^>]*>)?[^>]*>\(in\[0\], "ptr_(\w+)"\)', b)
    if mo and ca and base.startswith(mo.group(1) + '_'):
        # property accessors: the class tag is taken from the body (class and property names may contain '_')
        tag, rest = mo.group(1), base[len(mo.group(1)) + 1:]
        if rest.startswith('get_') and ca.group(1) == rest[4:] and re.search(r'obj->%s\b(?!\()' % re.escape(rest[4:]), b):
            return ('getter', tag, rest[4:], None)
        if rest.startswith('set_') and ('obj->%s = ' % rest[4:]) in b:
            return ('setter', tag, rest[4:], None)
    elif ca:
        # no object is unwrapped: an accessor whose body is missing (unless it is a static method named get_x / set_x)
        m = re.match(r'^(\w+?)_(get|set)_(\w+)$', base)
        if m and not re.search(r'::%s_%s(<[^(]*>)?\(' % (m.group(2), re.escape(m.group(3))), b) and '.' not in ca.group(1):
            return ('%ster-body-mismatch' % m.group(2), m.group(1), m.group(3), None)
    if ca is None:
        return ('unrecognised', base, None, None)
    cname, minus1, n = ca.group(1), ca.group(2), int(ca.group(3))
    if minus1 and mo:
        tag = mo.group(1)
        member = base[len(tag) + 1:] if base.startswith(tag + '_') else base
        ok = ('obj->%s' % cname.split('.')[-1]) in b or ('obj->%s<' % member) in b
        return ('method', tag, member, n) if ok and cname == member else ('method-body-mismatch', tag, member, n)
    if '.' in cname or '<' in cname or re.search(r'\w+_\w+', base):
        # static method: checkArguments("<Cpp>.<name>", ...) ; routine <tag>_<name>
        member = cname.split('.')[-1]
        tag = base[:-(len(member) + 1)] if base.endswith('_' + member) else base
        mq = re.search(r'((?:\w+::)+)%s(<[^(]*>)?\(' % re.escape(member), b)
        ok = mq is not None or re.search(r'::%s(<[^(]*>)?\(' % re.escape(member), b) is not None
        if mq is not None and mq.group(1).replace('::', '') != tag and base == tag + '_' + member:
            # the routine named after one class calls the static method of another one
            return ('static-calls-other-class:%s' % mq.group(1).rstrip(':'), tag, member, n)
        return ('static', tag, member, n) if ok else ('static-body-mismatch', tag, member, n)
    mf = re.search(r'(?:^|[^\w>:])((?:\w+::)*)%s(<[^(]*>)?\(' % re.escape(cname), b, re.M)
    ok = mf is not None
    # tag = the namespaces the callee is qualified with (compared with the package of the calling .m file)
    return ('function', mf.group(1).replace('::', ''), base, n) if ok else ('function-body-mismatch', None, base, n)


def check_toolbox(case):
    seq = case['seq']
    ser = case.get('ser', False)
    mod, ignore = build(seq)
    text = D.render(mod)
    viol = []
    label = 'len%d' % len(seq)

    def add(kind, msg):
        if case.get('before'):
            kind = 'reused-wrapper|' + kind
        viol.append({'sig': 'C05|%s|%s' % (kind, '+'.join(sorted(set(seq)))[:60] if len(set(seq)) <= 2 else kind),
                     'msg': '%s\nsequence=%s serialization=%s\n--- input ---\n%s' % (msg, seq, ser, text)})
    try:
        if case.get('before'):
            # the same MatlabWrapper object has wrapped another module before: the toolbox it writes now must be
            # consistent as well
            from gtwrap.matlab_wrapper import MatlabWrapper
            w = MatlabWrapper(module_name='mod', ignore_classes=list(ignore), use_boost_serialization=ser)
            first = D.render([x for i, k in enumerate(case['before']) for x in shape(k, 50 + i)])
            gen.matlab(first, wrapper=w)
            tree = gen.matlab(text, wrapper=w)
            text = first + '// ---- second wrap() of the same wrapper object ----\n' + text
        else:
            tree = gen.matlab(text, ignore=ignore, serialization=ser, module_name=case.get('module', 'mod'))
    except Exception as e:
        return {'viol': [{'sig': 'C05|exception|%s|%s' % (type(e).__name__, '+'.join(sorted(set(seq)))[:60]),
                          'msg': 'generator raised %s: %s\nsequence=%s\n--- input ---\n%s' % (type(e).__name__, str(e)[:300], seq, text)}]}
    gateway = case.get('module', 'mod') + '_wrapper'      # the gateway is called <module name>_wrapper whatever the module is called
    cpp = tree.get(gateway + '.cpp')
    if cpp is None:
        add('no-mex-source', 'no %s.cpp generated: %s' % (gateway, sorted(tree)))
        return {'viol': viol}
    mex = gen.scan_mex(cpp)
    sites, inconclusive = site_roles(tree, gateway)
    # every call of a function whose name ends in _wrapper must be a call of this gateway
    stray = sorted({m_ for t_ in tree.values() if t_ for m_ in re.findall(r'\b(\w+_wrapper)\(', t_ if isinstance(t_, str) else '')} - {gateway})
    if stray:
        add('call-of-another-gateway', 'generated files call %s, the gateway of this module is %s' % (stray, gateway))
    ids_sites = [s[0] for s in sites]
    case_ids = [c[0] for c in mex['cases']]
    n = len(case_ids)
    if sorted(case_ids) != list(range(n)):
        add('cases-not-contiguous', 'case labels are %s' % sorted(case_ids))
    if len(set(case_ids)) != len(case_ids):
        add('duplicate-case', 'duplicate case labels %s' % sorted(case_ids))
    if not inconclusive:
        if sorted(set(ids_sites)) != sorted(set(case_ids)):
            # one violation per orphan, named after the routine (digits of the position-dependent names removed)
            id2r = {cid: (calls[0] if calls else '?') for cid, calls in mex['cases']}
            for cid in sorted(set(case_ids) - set(ids_sites)):
                rn = re.sub(r'\d+', '', id2r.get(cid, '?')).rstrip('_')
                viol.append({'sig': 'C05|%scase-without-call-site|%s' % ('reused-wrapper|' if case.get('before') else '', rn),
                             'msg': 'case %d (routine %s) is not reached from any generated .m file; ids at call sites %s, case labels %s\n'
                                    'sequence=%s%s serialization=%s\n--- input ---\n%s'
                                    % (cid, id2r.get(cid), sorted(set(ids_sites)), sorted(set(case_ids)), seq,
                                       ' after %s' % case['before'] if case.get('before') else '', ser, text)})
            for cid in sorted(set(ids_sites) - set(case_ids)):
                where = [s_[2] for s_ in sites if s_[0] == cid][:2]
                add('call-site-without-case', 'id %d used in %s has no case; case labels %s' % (cid, where, sorted(set(case_ids))))
        dup = sorted({i for i in ids_sites if ids_sites.count(i) > 1})
        if dup:
            add('id-used-at-two-call-sites', 'ids %s are used by more than one call site: %s'
                % (dup, [(s[0], s[1], s[2]) for s in sites if s[0] in dup]))
    called = {}
    for cid, calls in mex['cases']:
        if len(calls) != 1:
            add('case-calls-not-one-routine', 'case %d calls %r' % (cid, calls))
        for c in calls:
            called.setdefault(c, []).append(cid)
    for rname, bodies in mex['routines'].items():
        if len(bodies) != 1:
            add('routine-defined-twice', 'routine %s defined %d times' % (rname, len(bodies)))
        if rname not in called:
            add('routine-without-case', 'routine %s is not called from any case' % rname)
        elif len(called[rname]) != 1:
            add('routine-called-from-many-cases', 'routine %s called from cases %s' % (rname, called[rname]))
    for c in called:
        if c not in mex['routines']:
            add('case-calls-undefined-routine', 'case %s calls undefined routine %s' % (called[c], c))
    # role agreement
    case_role = {}
    for cid, calls in mex['cases']:
        if len(calls) == 1 and calls[0] in mex['routines']:
            case_role[cid] = routine_role(calls[0], mex['routines'][calls[0]][0])
    nroles = 0
    serial_tags = {'sn%d' % i + 'Se%d' % i for i, k in enumerate(seq) if k == 'serial'} if ser else set()
    for cid, role, where in sites:
        r = case_role.get(cid)
        if r is None:
            continue
        nroles += 1
        if not roles_agree(role, r, serial_tags):
            add('role-mismatch|%s->%s' % (role[0], r[0]),
                'id %d: call site in %s is %r but case %d runs a routine that is %r (%s)'
                % (cid, where, role, cid, r, [c for i, c in mex['cases'] if i == cid]))
    canon = (n, tuple(sorted((r[0]) for r in case_role.values())))
    return {'viol': viol, 'canon': repr(canon), 'n': n, 'nroles': nroles, 'inconclusive': len(inconclusive)}


def roles_agree(site, routine, serial_tags=()):
    sk, stag, smem, sar = site
    rk, rtag, rmem, rar = routine
    if sk in ('method', 'static') and smem in ('string_serialize', 'string_deserialize') and stag in serial_tags:
        return (rk, rtag) == ('serialize' if smem == 'string_serialize' else 'deserialize', stag)
    if sk != rk:
        return False
    if sk == 'function':
        # site tag = namespaces, member = function name; routine name = function name (instantiated)
        return smem == rmem and (sar is None or rar is None or sar == rar) and (rtag is None or stag == rtag)
    if sk == 'upcast':
        return stag == rtag
    if stag != rtag:
        return False
    if sk in ('method', 'static'):
        return smem == rmem and (sar is None or sar == rar)
    if sk in ('getter', 'setter'):
        return smem == rmem
    if sk == 'constructor':
        return sar is None or sar == rar
    return True


def replay(case):
    return check_toolbox(case)['viol']


def run(ctx):
    L = 3
    seqs = []
    for n in range(1, L + 1):
        seqs += [list(s) for s in itertools.product(ALPHABET, repeat=n)]
    if ctx.thorough:
        seqs += [list(s) for s in itertools.product(ALPHA4, repeat=4)]
        for n in (5, 6):
            seqs += [list(s) for s in itertools.product(CORE, repeat=n)]
    else:
        for n in (4,):
            seqs += [list(s) for s in itertools.product(CORE, repeat=n)]
    cases = []
    for s in seqs:
        cases.append({'seq': s, 'ser': False})
        if 'serial' in s:
            cases.append({'seq': s, 'ser': True})
    # module names that look like the gateway's own name
    for k1 in ALPHABET:
        for modname in ('nav_wrapper', 'wrapper', 'x_wrapper_y'):
            cases.append({'seq': [k1], 'ser': False, 'module': modname})
    # histories: one wrapper object wraps two modules one after the other
    for k1 in ALPHABET:
        for k2 in ALPHABET:
            if 'ignored' not in (k1, k2):
                cases.append({'seq': [k2], 'before': [k1], 'ser': False})
    res = ctx.map(check_toolbox, cases)
    states = {r['canon'] for _, r in res if 'canon' in r}
    return {
        'states': len(states),
        'transitions': len(cases),
        'traces_validated_against_impl': sum(1 for _, r in res if 'canon' in r),
        'samples': [{'sequence': cases[i]['seq'], 'input': D.render(build(cases[i]['seq'])[0])[:1200]} for i in (20, len(cases) // 2)],
        'exhaustive': True,
        'max_depth': max(len(c['seq']) for c in cases),
        'ids_role_checked': sum(r.get('nroles', 0) for _, r in res),
        'inconclusive_m_files': sum(r.get('inconclusive', 0) for _, r in res),
        'alphabet': ALPHABET, 'core_alphabet': CORE,
        'rule': 'every declaration sequence of length <= %d over the 23-letter alphabet%s (plus both serialization settings '
                'where a serializable class occurs); each transition runs the real MatlabWrapper on the extended interface; '
                'states = distinct canonical (next id, role multiset); the invariant is checked on every toolbox'
                % ((3, ', length 4 over a 12-letter sub-alphabet and length 5..6 over the 6-letter core') if ctx.thorough else (3, ' and length 4 over the 6-letter core')),
    }
