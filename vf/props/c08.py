"""C08 — exactly the requested instantiations exist, in order, with stable names (exploration).

Enumerates template headers (1..3 parameters, list lengths 0..L), class- and member-level templates combined,
typedefs of classes / functions / forward-declared foreign templates placed before or after the template, at
namespace depth 0..2, always surrounded by non-template declarations whose order must survive; compares the
instantiated tree with the reference instantiation (vf.refinst): exact list of (name, C++ spelling), product
order with the first parameter slowest, typedef'd instantiations exactly once under the typedef's name.
"""
import itertools

from vf import dialect as D
from vf import refinst as R
from vf.dialect import T, arg, single

ID = 'C08'
LEVEL = 'exploration'
ASSUMPTIONS = [
    'where the typedef\'d instantiations are placed within their scope is not compared; their order relative to each other (the order of the typedefs) is',
    'template bodies use only exact parameter occurrences (substitution depth is C02\'s subject)',
]

POOLS = [
    [T('double'), T('ns::Pose3'), T('size_t'), T('Cam', t=[T('ns::Cal')]), T('3'), T('test'), T('n1::n2::X'),
     T('vector', t=[T('geo::Point2')]), T('keyType'),
     T('vector', t=[T('vector', t=[T('double')])]), T('vector', t=[T('vector', t=[T('int')])]), T('Map', t=[T('string'), T('vector', t=[T('ns::V')])])],
    [T('int'), T('gt::Rot2'), T('string'), T('Cam', t=[T('ns::Cal'), T('int')]), T('7'), T('aaba'), T('m::k::Y'),
     T('list', t=[T('geo::Pose3')]), T('valueType'),
     T('list', t=[T('list', t=[T('bool')])]), T('list', t=[T('list', t=[T('char')])]), T('Map', t=[T('int'), T('list', t=[T('ns::W')])])],
    [T('float'), T('x::Point'), T('bool'), T('Pin', t=[T('Cam', t=[T('ns::Cal')])]), T('12'), T('stats'), T('p::q::Z'),
     T('deque', t=[T('ns::Rot3')]), T('camelCaseName'),
     T('deque', t=[T('deque', t=[T('float')])]), T('deque', t=[T('deque', t=[T('size_t')])]), T('Map', t=[T('Key'), T('deque', t=[T('ns::U')])])],
]
PNAMES = ['T', 'POSE', 'U1']


def header(lengths, pool, start=0):
    tpl = []
    k = start
    for i, L in enumerate(lengths):
        if L == 0:
            tpl.append(D.tparam(PNAMES[i]))
        else:
            tpl.append(D.tparam(PNAMES[i], [pool[(k + j) % len(pool)] for j in range(L)]))
            k += L
    return tpl


def wrap_ns(items, depth):
    for n in ['inner', 'outer'][:depth]:
        items = [D.ns(n, items)]
    return items


def surround(items):
    return [D.include('a/b.h'), D.enum('Before', ['A', 'B'])] + items + \
        [D.var(T('double', 1), 'kAfter', '1.5'), D.cls('AfterClass', [D.ctor('AfterClass')]),
         D.func(single(T('void')), 'afterFn', [])]


def class_decl(tpl, name='Foo', members=None):
    ps = [p['n'] for p in tpl]
    m = [D.ctor(name, [arg(T(p, 1, '&'), 'a%d' % i) for i, p in enumerate(ps)]),
         D.method(single(T(ps[0])), 'get', [], 1), D.prop(T(ps[-1]), 'prop')]
    return D.cls(name, (members or []) + m, tpl=tpl)


def func_decl(tpl, name='fun'):
    ps = [p['n'] for p in tpl]
    return D.func(single(T(ps[0])), name, [arg(T(p, 1, '&'), 'a%d' % i) for i, p in enumerate(ps)], tpl=tpl)


def gen_cases(seed, thorough):
    pool = POOLS[seed % len(POOLS)]
    maxp, maxl = (3, 5) if thorough else (3, 3)
    # 1. headers on classes and functions at namespace depth 0..2
    for p in range(1, maxp + 1):
        for lengths in itertools.product(range(0, maxl + 1), repeat=p):
            for start in ((0, 3) if not thorough else (0, 2, 4)):
                tpl = header(lengths, pool, start)
                for depth in (0, 1, 2):
                    yield 'header-class', wrap_ns(surround([class_decl(tpl)]), depth)
                    yield 'header-func', wrap_ns(surround([func_decl(tpl)]), depth)
    # 1b. lower-case and camelCase argument names (capitalisation of the first letter only), and namespace chains that
    #     repeat a name
    for lengths in ([2], [1, 2], [3], [2, 3]):
        tpl = header(lengths, pool, 7)
        yield 'header-class', wrap_ns(surround([class_decl(tpl)]), 1)
        yield 'header-func', wrap_ns(surround([func_decl(tpl)]), 1)
        tpl = header(lengths, pool, 0)
        for path in (['outer', 'inner', 'outer'], ['outer', 'outer'], ['sensors', 'detail', 'sensors', 'detail']):
            yield 'header-class/repeated-namespace-name', wrap_ns_path(surround([class_decl(tpl), func_decl(tpl)]), path)
            td = D.typedef(T('::'.join(path + ['Tg']), t=[pool[1]]), 'EasyRep')
            yield 'typedef-class/repeated-namespace-name', surround([td] + wrap_ns_path([class_decl(header([0], pool), 'Tg')], path))
            yield 'typedef-fwd/repeated-namespace-name', surround(wrap_ns_path([D.fwd('Tg'), td], path))
    # 2. member-level templates combined with class-level ones
    mp_max, ml_max = (2, 4) if thorough else (2, 3)
    for clen in ([], [1], [2], [2, 1]) if not thorough else ([], [1], [2], [3], [2, 2]):
        ctpl = header(clen, pool, 1)
        for kind in ('method', 'static', 'ctor'):
            for mp in range(1, mp_max + 1):
                for ml in itertools.product(range(0, ml_max + 1), repeat=mp):
                    mt = []
                    k = 0
                    for i, L in enumerate(ml):
                        mt.append(D.tparam(['M', 'N'][i], [pool[(k + j + 2) % len(pool)] for j in range(L)] if L else None))
                        k += L
                    margs = [arg(T(p['n'], 1, '&'), 'm%d' % i) for i, p in enumerate(mt)]
                    if ctpl:
                        margs.append(arg(T(ctpl[0]['n']), 'c'))
                    if kind == 'method':
                        mem = D.method(single(T(mt[0]['n'])), 'tmeth', margs, 1, mt)
                    elif kind == 'static':
                        mem = D.static(single(T(mt[0]['n'])), 'tstat', margs, mt)
                    else:
                        mem = D.ctor('Foo', margs, mt)
                    # a plain member before and after: their order must survive
                    members = [D.method(single(T('int')), 'plainBefore', []), mem,
                               D.method(single(T('int')), 'plainAfter', [])]
                    if ctpl:
                        c = class_decl(ctpl, members=members)
                    else:
                        c = D.cls('Foo', members + [D.ctor('Foo')])
                    yield 'member-' + kind, wrap_ns(surround([c]), 1)
    # 3. typedefs
    for tkind in ('class', 'func', 'fwd'):
        for before in (0, 1):
            for nargs in (1, 2):
                for targ_templated in (0, 1):
                    for tdepth in (0, 1, 2):
                        for td_global in (0, 1):
                            for also_list in ((0, 1) if tkind != 'fwd' else (0,)):
                                path = ['outer', 'inner'][:tdepth]
                                conc = [pool[3] if targ_templated else pool[1], pool[0]][:nargs]
                                lengths = [1 if also_list else 0] * nargs
                                tpl = header(lengths, pool, 4)
                                if tkind == 'class':
                                    tgt = class_decl(tpl, 'Tgt')
                                elif tkind == 'func':
                                    tgt = func_decl(tpl, 'tgt')
                                else:
                                    tgt = D.fwd('Tgt')
                                tname = 'Tgt' if tkind != 'func' else 'tgt'
                                td = D.typedef(T('::'.join(path + [tname]), t=conc), 'EasyName')
                                inner = [td, tgt] if before else [tgt, td]
                                if td_global and tdepth:
                                    inner_ns = [tgt]
                                    mod = surround(([td] if before else []) + wrap_ns_path(inner_ns, path) +
                                                   ([] if before else [td]))
                                else:
                                    mod = wrap_ns_path(surround(inner), path)
                                yield 'typedef-%s/%s/%s%s' % (tkind, 'before' if before else 'after', 'global-for-ns-target' if td_global and tdepth else 'same-scope', '/with-list' if also_list else ''), mod
    # 3b. same-named templates in different namespaces, all typedef'd in one module
    for tk in ('class', 'func', 'fwd'):
        def tgt(name, tk=tk):
            tpl = header([0, 0], pool)
            return class_decl(tpl, name) if tk == 'class' else (func_decl(tpl, name) if tk == 'func' else D.fwd(name))
        nm = 'Pair' if tk != 'func' else 'pairUp'
        for order in (0, 1):
            tds = [D.typedef(T('left::' + nm, t=[pool[0], pool[1]]), 'LeftPair'),
                   D.typedef(T('right::inner::' + nm, t=[pool[2], pool[0]]), 'RightPair'),
                   D.typedef(T(nm, t=[pool[1], pool[1]]), 'GlobalPair')]
            if order:
                tds.reverse()
            decls = [D.ns('left', [tgt(nm)]), tgt(nm), D.ns('right', [D.ns('inner', [tgt(nm)])])]
            # an unqualified typedef inside a namespace that has a template of that name itself
            bare = D.typedef(T(nm, t=[pool[0], pool[2]]), 'BareInLeft')
            yield 'typedef-%s/same-name-in-3-namespaces/unqualified-inside-namespace' % tk, surround(
                tds + [D.ns('left', [tgt(nm), bare]), tgt(nm), D.ns('right', [D.ns('inner', [tgt(nm), D.typedef(T(nm, t=[pool[1], pool[0]]), 'BareInInner')])])])
            yield 'typedef-%s/same-name-in-3-namespaces' % tk, surround(tds + decls)
            yield 'typedef-%s/same-name-in-3-namespaces/typedefs-last' % tk, surround(decls + tds)
            yield 'typedef-%s/same-name-in-3-namespaces/typedefs-between' % tk, surround(decls[:1] + tds + decls[1:])
    # 3c. a namespace opened twice (depth 1 and 2): the template sits in the first or the second block, the
    #     typedef in either block or in front of both
    for tk in ('class', 'func', 'fwd'):
        for path in (['outer'], ['outer', 'inner']):
            for tblock in (0, 1):
                for tdloc in ('first-block', 'second-block', 'global-before'):
                    tpl = header([0], pool)
                    nm = 'Tgt' if tk != 'func' else 'tgt'
                    tgt = class_decl(tpl, nm) if tk == 'class' else (func_decl(tpl, nm) if tk == 'func' else D.fwd(nm))
                    td = D.typedef(T('::'.join(path + [nm]), t=[pool[1]]), 'EasyName')
                    blocks = [[D.cls('InFirst', [D.ctor('InFirst')])], [D.func(single(T('void')), 'inSecond', [])]]
                    blocks[tblock].append(tgt)
                    if tdloc == 'first-block':
                        blocks[0].append(td)
                    elif tdloc == 'second-block':
                        blocks[1].append(td)
                    mod = ([td] if tdloc == 'global-before' else []) + wrap_ns_path(blocks[0], path) + \
                        [D.enum('Between', ['A'])] + wrap_ns_path(blocks[1], path)
                    yield 'typedef-%s/reopened-namespace/template-in-block-%d/typedef-%s' % (tk, tblock + 1, tdloc), surround(mod)
    # 3e. two aliases of one instantiation, the same spelling in two namespaces, and forward declarations next to a class
    #     (template or not) of the same unqualified name
    for tk in ('class', 'func', 'fwd'):
        nm = 'Pair' if tk != 'func' else 'pairUp'

        def tgt2(name, tk=tk):
            tpl = header([0], pool)
            return class_decl(tpl, name) if tk == 'class' else (func_decl(tpl, name) if tk == 'func' else D.fwd(name))
        tds = [D.typedef(T('left::' + nm, t=[pool[0]]), 'AliasOne'), D.typedef(T('left::' + nm, t=[pool[0]]), 'AliasTwo'),
               D.typedef(T('right::' + nm, t=[pool[0]]), 'RightSame'), D.typedef(T(nm, t=[pool[0]]), 'GlobalSame')]
        yield 'typedef-%s/two-aliases-and-same-spelling-in-two-namespaces' % tk, surround(
            tds[:2] + [D.ns('left', [tgt2(nm)]), tgt2(nm), D.ns('right', [tgt2(nm)])] + tds[2:])
    yield 'fwd-next-to-class-of-that-name', surround([D.fwd('Shape', 1), class_decl(header([2], pool), 'Shape'), D.fwd('other::Pose'),
                                                      D.cls('Pose', [D.ctor('Pose')]),
                                                      D.ns('inner', [D.fwd('Pose'), D.cls('Pose', [D.ctor('Pose')]), D.fwd('Late', 0, 'Pose'), func_decl(header([1], pool), 'Late')])])
    # 3d. typedefs of a class template, a function template and a foreign template in one scope, in every order
    for depth in (0, 1):
        for perm in itertools.permutations(range(3)):
            tds = [D.typedef(T('Mine', t=[pool[0]]), 'MineD'), D.typedef(T('make', t=[pool[1]]), 'makeP'),
                   D.typedef(T('Ext', t=[pool[2]]), 'ExtBase')]
            body = [D.fwd('Ext'), class_decl(header([0], pool), 'Mine'), func_decl(header([0], pool), 'make')]
            if depth:
                tds = [D.typedef(T('outer::' + t['t']['q'], t=t['t']['t']), t['n']) for t in tds]
            items = body + [tds[i] for i in perm]
            yield 'typedef-mixed-kinds/order-%s' % ''.join(map(str, perm)), surround(wrap_ns_path(items, ['outer'][:depth]))
    # 4. template with neither list nor typedef yields nothing; two templates side by side
    yield 'nothing', surround([class_decl(header([0], pool)), func_decl(header([0, 0], pool))])
    yield 'two', surround([class_decl(header([2], pool), 'Foo'), class_decl(header([1, 2], pool, 2), 'Bar'),
                           func_decl(header([2], pool, 1), 'fa'), func_decl(header([2], pool, 3), 'fb')])


def wrap_ns_path(items, path):
    for n in reversed(path):
        items = [D.ns(n, items)]
    return items


def check_case(case):
    mod = case['mod']
    text = D.render(mod)
    try:
        got = R.observe_instances(text)
    except Exception as e:
        return {'viol': [{'sig': 'C08|%s|exception|%s' % (case['fam'], type(e).__name__),
                          'msg': 'instantiation raised %s: %s\n--- input ---\n%s' % (type(e).__name__, str(e)[:300], text)}]}
    want = R.expected_instances(mod)
    viol = []
    for d in R.compare_scope(want, got):
        viol.append({'sig': 'C08|%s|%s' % (case['fam'], classify(d)), 'msg': '%s\n--- input ---\n%s' % (d, text)})
    return {'viol': viol, 'ninst': count(want)}


def classify(d):
    import re
    p = d.split(':', 1)[0]
    p = re.sub(r'^(/\w+)*', '', p)
    p = re.sub(r'\[\d+\]', '[]', p)
    extra = ''
    m = re.search(r"expected '([^']*)', observed '([^']*)'", d)
    if m and p.endswith('.n'):
        e, o = m.groups()
        if e.lower() == o.lower():
            extra = '|capitalisation'
    if m and p.endswith('.call'):
        e, o = m.groups()
        if '<' in e and e.count('<') > o.count('<'):
            extra = '|templated-arg-flattened'
    return p + extra


def count(w):
    n = len(w['td'])
    for x in w['c']:
        if x['k'] == 'ns':
            n += count(x)
        elif x['k'] in ('class', 'func'):
            n += 1
    return n


def replay(case):
    return check_case(case)['viol']


def run(ctx):
    cases = [{'fam': f, 'mod': m} for f, m in gen_cases(ctx.seed, ctx.thorough)]
    res = ctx.map(check_case, cases)
    return {
        'evaluations': len(cases),
        'distinct_nontrivial': len({D.render_tight(c['mod']) for c in cases}),
        'rule': 'all template headers with p<=%d parameters and list lengths 0..%d on classes and functions at '
                'namespace depth 0..2; all member-level headers (method/static/ctor, 1..2 parameters) combined with '
                'class-level lists; all typedef placements (class/function/foreign forward declaration, before/after, '
                '1..2 arguments, templated argument, target depth 0..2, typedef global or local, with/without list); '
                'distinct by token sequence' % ((3, 5) if ctx.thorough else (3, 3)),
        'samples': [D.render(cases[i]['mod']) for i in (5, len(cases) // 2)],
        'exhaustive': True,
        'instantiations_expected_and_compared': sum(r.get('ninst', 0) for _, r in res),
    }
