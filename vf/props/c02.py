"""C02 — template instantiation is exact, capture-free substitution (bounded-exhaustive exploration).

Enumerates (occurrence shape) x (parameter spelling) x (concrete argument), each placed in every
context at once (class-level parameter in ctor/method/static/property/operator/base class; method-level
parameter in method/static/ctor; function-level parameter in arg/return), and compares the C++ spelling
of every type of every instantiated member with the reference substitution (vf.refinst).
"""
from vf import dialect as D
from vf import refinst as R
from vf.dialect import T, arg, single, pair

ID = 'C02'
LEVEL = 'exploration'
ASSUMPTIONS = [
    'reference substitution (vf/refinst.py): exact / scoped (P::X) / This / This::X, recursive in template arguments',
    'C++ spelling rules of Type.to_cpp as documented (* -> std::shared_ptr, @ -> raw pointer, &, const)',
    'a parameter spelled like a namespace-qualified name (ns::T) is left out: the dialect does not say which it is',
]

SPELLINGS = ['T', 'POSE', 'T1', 'A', 'Value']
CONCRETE = {
    'basic': T('double'),
    'ns': T('ns::Pose'),
    'ns2': T('n1::n2::X'),
    'templated': T('Cam', t=[T('ns::Cal')]),
    'numeric': T('3'),
}


def shapes(P, in_class, member='Value'):
    """label -> type spec using parameter spelling P."""
    V, M = 'V', 'M'
    s = {
        'P': T(P),
        'const P&': T(P, 1, '&'),
        'P*': T(P, 0, '*'),
        'P@': T(P, 0, '@'),
        'V<P>': T(V, t=[T(P)]),
        'V<P*>': T(V, t=[T(P, 0, '*')]),
        'const V<const P&>&': T(V, 1, '&', [T(P, 1, '&')]),
        'M<K,P>': T(M, t=[T('Key'), T(P)]),
        'V<V<P>>': T(V, t=[T(V, t=[T(P)])]),
        'V<M<K,V<P>>>': T(V, t=[T(M, t=[T('Key'), T(V, t=[T(P)])])]),
        # a templated sibling in front of the parameter
        'M<V<P>,P>': T(M, t=[T(V, t=[T(P)]), T(P)]),
        'M<V<K>,P*>': T(M, t=[T(V, t=[T('Key')]), T(P, 0, '*')]),
        'P::Value': T(P + '::' + member),
        'const P::Value&': T(P + '::' + member, 1, '&'),
        'P::Sub::Value': T(P + '::Sub::' + member),
        'V<P::Value>': T(V, t=[T(P + '::' + member)]),
        # look-alikes that are not the parameter and must stay untouched
        'PP(lookalike)': T(P + P),
        'XP(lookalike)': T('X' + P),
        'P_(lookalike)': T(P + '_', 1, '&'),
        'V<PP>(lookalike)': T(V, t=[T(P + P)]),
        'ns::XP(lookalike)': T('ns::X' + P),
        'P::PP(scoped+lookalike)': T(P + '::' + P + P),
    }
    for c, m in ((1, ''), (0, '&'), (1, '*'), (1, '@')):
        s['%sP%s' % ('const ' if c else '', m)] = T(P, c, m)
        s['%sV<P>%s' % ('const ' if c else '', m)] = T(V, c, m, [T(P)])
    s['V<const P@>'] = T(V, t=[T(P, 1, '@')])
    if in_class:
        s.update({
            'This': T('This'),
            'const This&': T('This', 1, '&'),
            'This::Sub': T('This::Sub'),
            'V<This>': T(V, t=[T('This')]),
            'This*': T('This', 0, '*'),
            'const This@': T('This', 1, '@'),
            'gt::This::Sub::Deep': T('gt::This::Sub::Deep'),
            'V<This::Sub>': T(V, t=[T('This::Sub')]),
        })
    return s


def build_module(shape_label, P, conc_label, second_shape=None):
    Q = 'POIN' + P       # method-level parameter: its spelling *ends with* the class-level one (POINT for T)
    # 'captured': the class is instantiated with a concrete type that is spelled like the method-level parameter
    conc = CONCRETE[conc_label] if conc_label != 'captured' else T(Q)
    S = shapes(P, True, 'Item' if P == 'Value' else 'Value')[shape_label]
    # the member name after a method-level parameter must not itself be the class-level parameter's
    # spelling (UU::Value with a parameter called Value is ambiguous in the dialect)
    qmember = 'Item' if P == 'Value' else 'Value'
    S2 = shapes(Q, True, qmember)[shape_label]
    other = T('ns::Other', 1, '&')
    if second_shape:
        other = shapes(P, True, 'Item' if P == 'Value' else 'Value')[second_shape]
    this_shape = 'This' in shape_label
    i = T('int')
    mconc = T('ns::Mm')
    members = [
        D.ctor('Foo', [arg(S, 'a', 'ns::X(1)'), arg(other, 'b')]),
        D.method(single(S), 'retm', [arg(i, 'keep', '3')], c=1),
        D.method(single(T('void')), 'argm', [arg(other, 'o'), arg(S, 'a', '{}')]),
        D.static(single(S), 'rets', [arg(S, 'a')]),
        D.prop(S, 'prop'),
        D.op(single(S), '()', [arg(S, 'a')]),
        D.op(single(S), '-', []),
        D.op(single(S), '+', [arg(S, 'o')]),
        # method-level parameter Q (instantiated with ns::Mm) next to the class-level one
        D.method(single(S2), 'tm', [arg(S2, 'a'), arg(S, 'b')], tpl=[D.tparam(Q, [mconc])]),
        D.static(single(S2), 'ts', [arg(S2, 'a'), arg(S, 'b')], tpl=[D.tparam(Q, [mconc])]),
        D.ctor('Foo', [arg(S2, 'a'), arg(S, 'b')], tpl=[D.tparam(Q, [mconc])]),
        # templated static method returning the class itself
        D.static(single(T('This')), 'fromQ', [arg(S2, 'a')], tpl=[D.tparam(Q, [mconc])]),
        D.method(single(T('This', 1, '&')), 'selfQ', [arg(S2, 'a')], tpl=[D.tparam(Q, [mconc])]),
        D.dunder('contains', [arg(S, 'key')]), D.dunder('len'),
    ]
    if S['t'] is None:
        members.append(D.method(pair(S, i), 'pr1', []))
        members.append(D.method(pair(T('ns::Keep', 0, '*'), S), 'pr2', []))
        members.append(D.method(pair(T('double'), S), 'pr3', []))            # fundamental type first, parameter second
        members.append(D.static(pair(T('size_t'), S), 'pr4', []))
    base = T('ns::Base', t=[T(P)])
    # two instantiations: the second must not inherit anything from the first
    second = T('ns::Second') if conc_label != 'ns' else T('double')
    if conc_label == 'ns2':
        second = T('m9::X')      # same unqualified name as n1::n2::X, another namespace
    mod = [D.ns('gt', [D.cls('Foo', members, tpl=[D.tparam(P, [conc, second])], v=1, b=base)])]
    if not this_shape:
        Sp = S
        Ss = shapes('SS', False, 'Value')[shape_label]
        third = T('ns::Third')
        mod[0]['c'].append(D.cls('Bar', [
            D.static(single(Sp), 'bs', [arg(Sp, 'a')], tpl=[D.tparam(P, [conc])]),
            D.method(single(S2), 'bm', [arg(S2, 'a'), arg(Sp, 'b')], tpl=[D.tparam(Q, [mconc]), D.tparam(P, [third])]),
            D.ctor('Bar', [arg(Ss, 'a')], tpl=[D.tparam('SS', [second])]),
            D.method(single(Ss), 'bn', [arg(Sp, 'a'), arg(Ss, 'b')], tpl=[D.tparam('SS', [second]), D.tparam(P, [conc])]),
        ]))
    if not this_shape:
        # (`This` has no meaning in a free function: a second shape that mentions it stays inside the class)
        fother = other if not (second_shape and 'This' in second_shape) else T('ns::Other', 1, '&')
        mod[0]['c'].append(D.func(single(S), 'fn', [arg(S, 'a', '4'), arg(fother, 'o')], tpl=[D.tparam(P, [conc, second])]))
        # two-parameter header: both parameters occur
        Sq = shapes(Q, False, qmember)[shape_label]
        mod[0]['c'].append(D.func(single(Sq), 'fn2', [arg(S, 'a'), arg(Sq, 'b')],
                                  tpl=[D.tparam(P, [conc, second]), D.tparam(Q, [mconc, T('double')])]))
        # two class-level parameters handed to the base class in the other order
        mod[0]['c'].append(D.cls('Two', [D.ctor('Two', [arg(S, 'a'), arg(Sq, 'b')]), D.method(pair(T(Q), T(P)), 'both', [], 1),
                                         D.method(single(T('M', t=[T(Q), T(P)])), 'mp', [arg(T('M', 1, '&', [T(P), T(Q)]), 'm')])],
                                 tpl=[D.tparam(P, [conc, second]), D.tparam(Q, [mconc])], v=1,
                                 b=T('ns::Base2', t=[T(Q), T(P)])))
    return mod


LOCUS = {  # readable context names for the deterministic member positions above
    '.ctor[0].a[0].t': 'class-param/ctor-arg', '.method[0].r[0]': 'class-param/method-return',
    '.method[1].a[1].t': 'class-param/method-arg', '.static[0].r[0]': 'class-param/static-return',
    '.static[0].a[0].t': 'class-param/static-arg', '.prop[0].t': 'class-param/property',
    '.op[0].r[0]': 'class-param/operator-return', '.op[0].a[0].t': 'class-param/operator-arg',
    '.op[1].r[0]': 'class-param/unary-operator-return', '.op[2].r[0]': 'class-param/binary-operator-return',
    '.op[2].a[0].t': 'class-param/binary-operator-arg',
    '.b': 'class-param/base-class',
    '.method[2].r[0]': 'method-param/method-return', '.method[2].a[0].t': 'method-param/method-arg',
    '.method[2].a[1].t': 'class-param/templated-method-arg',
    '.static[1].r[0]': 'method-param/static-return', '.static[1].a[0].t': 'method-param/static-arg',
    '.static[1].a[1].t': 'class-param/templated-static-arg',
    '.ctor[1].a[0].t': 'method-param/ctor-arg', '.ctor[1].a[1].t': 'class-param/templated-ctor-arg',
    '.dunder_args[0].a[0].t': 'class-param/dunder-arg',
    '.method[3].r[0]': 'class-param/pair-slot1', '.method[4].r[1]': 'class-param/pair-slot2',
}


def locus_of(diffstr):
    import re
    p = diffstr.split(':', 1)[0]
    m = re.match(r'^/gt\.c\[(\d+)\](.*)$', p)
    if not m:
        return p
    idx, rest = int(m.group(1)), m.group(2)
    if idx == 0:
        return LOCUS.get(rest, 'class' + rest)
    if idx == 1:
        return '2nd-instantiation:' + LOCUS.get(rest, 'class' + rest)
    return {2: 'plain-class-with-templated-members/Bar', 3: 'function-param/fn', 4: '2nd-instantiation:function-param/fn',
            5: 'function-2param/fn2', 6: 'function-2param/fn2b', 7: '2nd-instantiation:function-2param/fn2',
            8: '2nd-instantiation:function-2param/fn2b'}.get(idx, 'c%d' % idx) + rest


def failure_kind(d, P):
    """Coarse class of a type mismatch, so that a known finding does not hide a different failure of the same shape."""
    import re
    m = re.search(r"expected '([^']*)', observed '([^']*)'", d)
    if not m:
        return 'structure'
    e, o = m.groups()
    toks_o = set(re.findall(r'\w+', o))
    toks_e = set(re.findall(r'\w+', e))
    if e.replace('gt::Foo', 'Foo') == o:
        return 'class-namespace-missing'
    if any(x in toks_o and x not in toks_e for x in (P, 'POIN' + P, 'SS')) or ('This' in toks_o and 'This' not in toks_e):
        return 'unsubstituted'
    if sorted(re.findall(r'\w+', e)) == sorted(re.findall(r'\w+', o)):
        return 'template-args-misplaced'
    return 'wrong-type'


def check_case(case):
    mod = build_module(case['shape'], case['P'], case['conc'], case.get('shape2'))
    text = D.render(mod)
    viol = []
    try:
        got = R.observe_instances(text)
    except Exception as e:
        return {'viol': [{'sig': 'C02|%s|exception|%s|%s' % (case['shape'], type(e).__name__, case['conc']),
                          'msg': 'instantiation raised %s: %s\n--- input ---\n%s' % (type(e).__name__, str(e)[:300], text)}]}
    want = R.expected_instances(mod)
    diffs = R.compare_scope(want, got)
    for d in diffs:
        loc = locus_of(d)
        shape = case['shape']
        import re as _re
        mi = _re.match(r'^/gt\.c\[(\d+)\]', d)
        in_foo_or_fn = mi is not None and int(mi.group(1)) in (0, 1, 3, 4)     # the two Foo instantiations and fn's: only they hold the second shape
        if case.get('shape2') and in_foo_or_fn and loc.endswith(('ctor[0].a[1].t', 'method[1].a[0].t', '/fn.a[1].t')):
            shape = case['shape2']      # the position that holds the second shape of a pair case
            loc = 'second-shape:' + loc
        viol.append({'sig': 'C02|%s|%s|%s|%s|%s' % (shape, case['conc'], case['P'], loc, failure_kind(d, case['P'])),
                     'msg': '%s\n--- input ---\n%s' % (d, text)})
    return {'viol': viol, 'ntypes': _count_types(want)}


def _count_types(w):
    n = 0
    for x in w['c']:
        if x['k'] == 'ns':
            n += _count_types(x)
        elif x['k'] == 'class':
            for k in ('ctor', 'method', 'static', 'op'):
                for m in x[k]:
                    n += len(m['a']) + len(m.get('r', []))
            n += len(x['prop'])
        elif x['k'] == 'func':
            n += len(x['a']) + len(x['r'])
    return n


def replay(case):
    return check_case(case)['viol']


def run(ctx):
    rot = ctx.seed % len(SPELLINGS)
    spellings = SPELLINGS[rot:] + SPELLINGS[:rot]
    labels = list(shapes('T', True))
    cases = []
    for sh in labels:
        for P in spellings:
            for cl in CONCRETE:
                cases.append({'shape': sh, 'P': P, 'conc': cl})
    # capture: the concrete type is spelled like the method-level parameter
    for sh in ('P', 'const P&', 'P*', 'P@', 'V<P>', 'P::Value', 'This'):
        for P in spellings:
            cases.append({'shape': sh, 'P': P, 'conc': 'captured'})
    if ctx.thorough:
        for s1 in labels:
            for s2 in labels:
                for cl in ('ns', 'templated'):
                    cases.append({'shape': s1, 'shape2': s2, 'P': spellings[0], 'conc': cl})
    res = ctx.map(check_case, cases)
    ntypes = sum(r.get('ntypes', 0) for _, r in res)
    return {
        'evaluations': len(cases),
        'distinct_nontrivial': len({(c['shape'], c['P'], c['conc'], c.get('shape2')) for c in cases}),
        'rule': 'full product of %d occurrence shapes x %d parameter spellings x %d concrete arguments (plus a concrete type spelled like the method-level parameter for 7 shapes)%s; every case '
                'is a module placing the shape in 22 contexts (class-, method- and function-level parameters); '
                'non-trivial = contains at least one parameter occurrence or look-alike; all are distinct'
                % (len(labels), len(spellings), len(CONCRETE),
                   ' + all ordered shape pairs in one signature x 2 concretes' if ctx.thorough else ''),
        'samples': [D.render(build_module(c['shape'], c['P'], c['conc']))
                    for c in (cases[0], cases[len(cases) // 3])],
        'exhaustive': True,
        'type_positions_compared': ntypes,
    }
