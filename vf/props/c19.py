"""C19 — parsing cost stays polynomial in nesting depth and file size (exploration with a deterministic cost oracle).

Cost = number of Python function activations inside pyparsing and inside gtwrap.interface_parser (the parse
actions) while Module.parseString runs (counted with sys.monitoring; identical on every run, no wall-clock in the
verdict).  Enumerated completely:
  * every nesting chain (a namespaces deep, template arguments nested b deep) with a + b <= D, the templated type
    placed in each of 6 positions (argument, return type, property, typedef, base class, instantiation list);
  * pure template chains up to depth 24 (32) in argument and return position, with short and with long type names;
  * files of n declarations of each of 8 kinds, n = 25 .. 200 (400);
  * default-value expressions of growing length (8 .. 64 characters after an opening bracket, with and without an
    unpaired quote such as the digit separator in 10'000).
Oracle: along every chain the cost ratio of consecutive depths is <= 1.7 from depth 6 on (a polynomial of degree
<= 3 gives <= 1.59 there; exponential re-parsing gives >= 2), cost(n)/n stays within 2x of cost(25)/25, doubling
the length of a default expression at most triples the cost; every parse ends within the horizon.
"""
import signal
import sys
import time

from vf import dialect as D  # noqa: F401

ID = 'C19'
LEVEL = 'exploration'
ASSUMPTIONS = [
    'cost model: pyparsing function activations (deterministic); CPU time is recorded as evidence only',
    'thresholds: consecutive-depth ratio <= 1.7 for depth >= 6, per-declaration cost within 2x of the n = 25 value',
]

RATIO_MAX = 1.7
FROM_DEPTH = 6
HORIZON = 120     # seconds per parse; the slowest parse of the family takes about 1 s on the unchanged tree


class Hang(Exception):
    pass


def count_steps(text):
    import gtwrap.interface_parser as ip
    import pyparsing
    mon = sys.monitoring
    tool = mon.PROFILER_ID
    cnt = [0]
    pp = pyparsing.__file__.rsplit('/', 1)[0]
    own = ip.__file__.rsplit('/', 1)[0]

    def cb(code, off):
        if code.co_filename.startswith((pp, own)):
            cnt[0] += 1
        else:
            return mon.DISABLE
    mon.use_tool_id(tool, 'vf-c19')
    mon.register_callback(tool, mon.events.PY_START, cb)
    mon.set_events(tool, mon.events.PY_START)
    t = time.process_time()
    try:
        pyparsing.ParserElement.reset_cache()
        ip.Module.parseString(text)
    finally:
        mon.set_events(tool, 0)
        mon.register_callback(tool, mon.events.PY_START, None)
        mon.free_tool_id(tool)
        mon.restart_events()
    return cnt[0], time.process_time() - t


def nested_type(b, long_names=False):
    if long_names:
        s = 'some_project::geometry::LeafElementType'
        for i in range(b):
            s = ('some_project::containers::DynamicVectorOf<%s>' if i % 2 == 0 else 'some_project::containers::OrderedMapFromIntegerTo<int, %s*>') % s
        return s
    s = 'ns::Leaf'
    for i in range(b):
        s = ('std::vector<%s>' if i % 2 == 0 else 'gt::Map<int, %s*>') % s
    return s


POSITIONS = {
    'argument': lambda t: 'void f(const %s& a, int b = 3);' % t,
    'return': lambda t: 'class A { %s get() const; };' % t,
    'property': lambda t: 'class A { %s value; };' % t,
    'typedef': lambda t: 'typedef %s Easy;' % t.replace('*', ''),
    'base-class': lambda t: 'virtual class A : %s {};' % t.replace('*', ''),
    'instantiation-list': lambda t: 'template<T = {%s, double}> class A { T get(); };' % t.replace('*', ''),
}


def chain_text(pos, a, b, long_names=False):
    body = POSITIONS[pos](nested_type(b, long_names))
    return ''.join('namespace n%d { ' % i for i in range(a)) + body + ' }' * a


KINDS = {
    'class': lambda i: 'class C%d { C%d(); C%d(int a, double b = 1.5); int get() const; static C%d Make(); double x; };' % (i, i, i, i),
    'function': lambda i: 'pair<int, ns::P*> f%d(const std::vector<int>& a, double b = 3, string s = "x, y");' % i,
    'enum': lambda i: 'enum class E%d { A, B, C };' % i,
    'variable': lambda i: 'const double kV%d = -9.81;' % i,
    'typedef': lambda i: 'typedef ns::T<int, ns::U<double>> Td%d;' % i,
    'forward': lambda i: 'virtual class ns::F%d : ns::Base;' % i,
    'include': lambda i: '#include <a/b%d.h>' % i,
    'namespace': lambda i: 'namespace n%d { class A {}; void f(); }' % i,
}


def default_text(n, quote):
    """A default value with n characters after an opening bracket (words, commas, nested brackets), optionally with
    an unpaired quote (C++14 digit separator) near its start."""
    filler = ''
    words = ['alpha', 'beta(1)', 'g[2]', '{3}', 'x+y', 'ns::k']
    i = 0
    while len(filler) < n:
        filler += (', ' if filler else '') + words[i % len(words)]
        i += 1
    filler = filler[:n].rstrip(', ([{')
    # close what the cut left open
    stack = []
    for ch in filler:
        if ch in '([{':
            stack.append({'(': ')', '[': ']', '{': '}'}[ch])
        elif ch in ')]}' and stack:
            stack.pop()
    filler += ''.join(reversed(stack))
    head = "Options(10'000, " if quote else 'Options(10000, '
    return 'void f(int a, ns::Options o = %s%s), int z = 1);' % (head, filler)


def measure(case):
    def on_alarm(signum, frame):
        raise Hang()
    old = signal.signal(signal.SIGALRM, on_alarm)
    signal.alarm(HORIZON)
    try:
        return _measure(case)
    except Hang:
        return {'viol': [{'sig': 'C19|no-result-within-horizon|%s' % case.get('pos', case.get('kind', case['mode'])),
                          'msg': 'parsing did not finish within %d s: %r' % (HORIZON, {k: v for k, v in case.items()})}]}
    finally:
        signal.alarm(0)
        signal.signal(signal.SIGALRM, old)


def _measure(case):
    if case.get('after_failure'):
        # history: a malformed file was parsed (and rejected) earlier in this process
        import gtwrap.interface_parser as ip
        try:
            ip.Module.parseString('class Broken { void f( ; };')
        except Exception:
            pass
    if case['mode'] == 'chain':
        text = chain_text(case['pos'], case['a'], case['b'], case.get('long', False))
    elif case['mode'] == 'default':
        text = default_text(case['n'], case['quote'])
    elif case['mode'] == 'ns-rich':
        # nested namespaces, each followed by further declarations of the enclosing one, around a body of ordinary size
        body = ' '.join('class Small%d { Small%d(); int get%d() const; double v%d; };' % (i, i, i, i) for i in range(5))
        text = body
        for i in reversed(range(case['a'])):
            text = 'namespace n%d { %s class After%d { After%d(); }; void f%d(int a); }' % (i, text, i, i, i)
    elif case['mode'] == 'enum-comment':
        # n enumerators with long names and comments between them and before the closing brace
        names = ['kEnumerator%02dLongName' % i for i in range(case['n'])]
        text = 'enum class Big { %s /* last one */ };' % ', '.join('%s /* c%d */' % (nm, i) if i % 2 else nm for i, nm in enumerate(names))
    else:
        text = '\n'.join(KINDS[case['kind']](i) for i in range(case['n']))
    try:
        steps, cpu = count_steps(text)
    except Exception as e:
        return {'viol': [{'sig': 'C19|rejected|%s' % case.get('pos', case.get('kind', case['mode'])),
                          'msg': 'input of the scaling family is rejected: %s\n%s' % (str(e)[:200], text[:300])}]}
    return {'viol': [], 'steps': steps, 'cpu': cpu, 'len': len(text)}


def replay(case):
    """A replay re-measures the two neighbouring points and re-evaluates the ratio."""
    viol = []
    if not case.get('pair'):
        return measure(case).get('viol', [])
    if case.get('pair'):
        a, b = [measure(c) for c in case['pair']]
        if 'steps' not in a or 'steps' not in b:
            return a.get('viol', []) + b.get('viol', [])
        r = b['steps'] / a['steps']
        if r > case['limit']:
            viol.append({'sig': case['sig'], 'msg': 'cost ratio %.2f > %.2f (%d -> %d steps)' % (r, case['limit'], a['steps'], b['steps'])})
    return viol


def run(ctx):
    Dmax = 16 if ctx.thorough else 10
    cases = []
    for pos in POSITIONS:
        for a in range(0, Dmax + 1):
            for b in range(1, Dmax + 1 - a):
                cases.append({'mode': 'chain', 'pos': pos, 'a': a, 'b': b})
    sizes = [25, 50, 100, 200] + ([400] if ctx.thorough else [])
    for kind in KINDS:
        for n in sizes:
            cases.append({'mode': 'size', 'kind': kind, 'n': n})
    # the same chains measured after a rejected input in the same process (pure template / pure namespace chains)
    hist = []
    for pos in ('argument', 'return'):
        for d in range(1, Dmax + 1):
            hist.append({'mode': 'chain', 'pos': pos, 'a': 0, 'b': d, 'after_failure': True})
            hist.append({'mode': 'chain', 'pos': pos, 'a': d - 1, 'b': 1, 'after_failure': True})
    # pure template chains, deeper, with short and with long type names
    Ddeep = 32 if ctx.thorough else 24
    deep = []
    for pos in ('argument', 'return'):
        for long_names in (False, True):
            for b in range(1, Ddeep + 1):
                if long_names or b > Dmax:
                    deep.append({'mode': 'chain', 'pos': pos, 'a': 0, 'b': b, 'long': long_names})
    # namespace chains with a class at the bottom, deeper
    for pos in ('return', 'property'):
        for a in range(Dmax, Ddeep + 1):
            deep.append({'mode': 'chain', 'pos': pos, 'a': a, 'b': 1, 'long': False, 'axis': 'ns'})
    ecm = [{'mode': 'enum-comment', 'n': n} for n in (2, 3, 4, 6, 8, 12, 16, 24, 32)]
    Drich = 16 if ctx.thorough else 12
    ecm += [{'mode': 'ns-rich', 'a': a} for a in range(1, Drich + 1)]
    # default-value expressions of growing length
    dflt = [{'mode': 'default', 'n': n, 'quote': q} for q in (False, True) for n in (8, 12, 16, 20, 24, 32, 48, 64)]
    res = ctx.map(measure, cases, chunksize=4)
    resh = ctx.map(measure, hist, chunksize=4)
    resd = ctx.map(measure, deep + dflt + ecm, chunksize=1)
    dsteps = {}
    nsteps = {}
    for c, r in resd:
        if 'steps' in r:
            if c.get('axis') == 'ns':
                nsteps[(c['pos'], c['a'])] = r['steps']
            else:
                dsteps[(c['mode'], c.get('pos'), c.get('long'), c.get('quote'), c.get('b', c.get('n', c.get('a'))))] = r['steps']
    steps = {}
    cpu_total = 0.0
    for c, r in res:
        if 'steps' in r:
            key = (c['pos'], c['a'], c['b']) if c['mode'] == 'chain' else (c['kind'], c['n'])
            steps[key] = r['steps']
            cpu_total += r['cpu']
    worst = (0, None)
    nratios = 0
    # history independence: the cost after a rejected input equals the cost in a fresh process
    fresh = {(c['pos'], c['a'], c['b']): r.get('steps') for c, r in res if c['mode'] == 'chain'}
    for c, r in resh:
        f = fresh.get((c['pos'], c['a'], c['b']))
        if f and r.get('steps') and r['steps'] > 1.5 * f:
            sig = 'C19|cost-depends-on-earlier-rejected-input|%s' % c['pos']
            ctx.add_violation(sig, 'after a rejected input in the same process, parsing (namespace depth %d, template depth %d, %s) costs '
                                   '%d activations instead of %d' % (c['a'], c['b'], c['pos'], r['steps'], f),
                              {'pair': [dict(c, after_failure=False), c], 'limit': 1.5, 'sig': sig})
    for pos in POSITIONS:
        for a in range(0, Dmax + 1):
            for b in range(1, Dmax + 1 - a):
                s0 = steps.get((pos, a, b))
                if s0 is None:
                    continue
                for (a2, b2, idx, axis) in ((a, b + 1, b, 'template-depth'), (a + 1, b, a, 'namespace-depth')):
                    s1 = steps.get((pos, a2, b2))
                    if s1 is None or idx < FROM_DEPTH:
                        continue
                    r = s1 / s0
                    nratios += 1
                    if r > worst[0]:
                        worst = (r, (pos, a, b, axis))
                    if r > RATIO_MAX:
                        sig = 'C19|super-polynomial|%s|%s' % (axis, pos)
                        ctx.add_violation(sig, 'parsing cost grows by a factor %.2f (> %.2f) from %s=%d to %d in position %s '
                                               '(other depth fixed at %d): %d -> %d pyparsing activations\n--- input ---\n%s'
                                          % (r, RATIO_MAX, axis, idx, idx + 1, pos, b if axis == 'namespace-depth' else a, s0, s1,
                                             chain_text(pos, a2, b2)[:400]),
                                          {'pair': [{'mode': 'chain', 'pos': pos, 'a': a, 'b': b}, {'mode': 'chain', 'pos': pos, 'a': a2, 'b': b2}],
                                           'limit': RATIO_MAX, 'sig': sig})
    for pos in ('argument', 'return'):
        for long_names in (False, True):
            for b in range(FROM_DEPTH, Ddeep):
                s0 = dsteps.get(('chain', pos, long_names, None, b)) or (steps.get((pos, 0, b)) if not long_names else None)
                s1 = dsteps.get(('chain', pos, long_names, None, b + 1)) or (steps.get((pos, 0, b + 1)) if not long_names else None)
                if not s0 or not s1:
                    continue
                r = s1 / s0
                nratios += 1
                if r > RATIO_MAX:
                    sig = 'C19|super-polynomial|deep-template-chain|%s|%s' % (pos, 'long-names' if long_names else 'short-names')
                    ctx.add_violation(sig, 'parsing cost grows by a factor %.2f (> %.2f) from template depth %d to %d in position %s (%s type names): '
                                           '%d -> %d activations' % (r, RATIO_MAX, b, b + 1, pos, 'long' if long_names else 'short', s0, s1),
                                      {'pair': [{'mode': 'chain', 'pos': pos, 'a': 0, 'b': b, 'long': long_names},
                                                {'mode': 'chain', 'pos': pos, 'a': 0, 'b': b + 1, 'long': long_names}], 'limit': RATIO_MAX, 'sig': sig})
    for pos in ('return', 'property'):
        for a in range(max(FROM_DEPTH, Dmax), Ddeep):
            s0, s1 = nsteps.get((pos, a)), nsteps.get((pos, a + 1))
            if not s0 or not s1:
                continue
            nratios += 1
            if s1 / s0 > RATIO_MAX:
                sig = 'C19|super-polynomial|deep-namespace-chain|%s' % pos
                ctx.add_violation(sig, 'parsing cost grows by a factor %.2f (> %.2f) from namespace depth %d to %d (a class at the bottom, position %s): '
                                       '%d -> %d activations' % (s1 / s0, RATIO_MAX, a, a + 1, pos, s0, s1),
                                  {'pair': [{'mode': 'chain', 'pos': pos, 'a': a, 'b': 1}, {'mode': 'chain', 'pos': pos, 'a': a + 1, 'b': 1}],
                                   'limit': RATIO_MAX, 'sig': sig})
    for a in range(FROM_DEPTH, Drich):
        s0, s1 = dsteps.get(('ns-rich', None, None, None, a)), dsteps.get(('ns-rich', None, None, None, a + 1))
        if not s0 or not s1:
            continue
        nratios += 1
        if s1 / s0 > RATIO_MAX:
            sig = 'C19|super-polynomial|namespaces-with-sibling-declarations'
            ctx.add_violation(sig, 'parsing cost grows by a factor %.2f (> %.2f) from namespace depth %d to %d (each namespace followed by sibling '
                                   'declarations, 5 small classes innermost): %d -> %d activations' % (s1 / s0, RATIO_MAX, a, a + 1, s0, s1),
                              {'pair': [{'mode': 'ns-rich', 'a': a}, {'mode': 'ns-rich', 'a': a + 1}], 'limit': RATIO_MAX, 'sig': sig})
    for n0, n1 in ((2, 4), (3, 6), (4, 8), (6, 12), (8, 16), (12, 24), (16, 32)):
        s0, s1 = dsteps.get(('enum-comment', None, None, None, n0)), dsteps.get(('enum-comment', None, None, None, n1))
        if not s0 or not s1:
            continue
        nratios += 1
        if s1 > 3.0 * s0:
            sig = 'C19|super-linear-in-enumerator-count|comments-between-enumerators'
            ctx.add_violation(sig, 'doubling the number of enumerators (%d -> %d, comments between them) multiplies the parsing cost by %.1f '
                                   '(%d -> %d activations)' % (n0, n1, s1 / s0, s0, s1),
                              {'pair': [{'mode': 'enum-comment', 'n': n0}, {'mode': 'enum-comment', 'n': n1}], 'limit': 3.0, 'sig': sig})
    for q in (False, True):
        for n0, n1 in ((8, 16), (12, 24), (16, 32), (24, 48), (32, 64)):
            s0, s1 = dsteps.get(('default', None, None, q, n0)), dsteps.get(('default', None, None, q, n1))
            if not s0 or not s1:
                continue
            nratios += 1
            if s1 > 3.0 * s0:
                sig = 'C19|super-linear-in-default-length|%s' % ('unpaired-quote' if q else 'plain')
                ctx.add_violation(sig, 'doubling the length of a default-value expression (%d -> %d characters inside the bracket%s) multiplies the '
                                       'parsing cost by %.1f (%d -> %d activations)\n%s' % (n0, n1, ', after an unpaired quote' if q else '', s1 / s0, s0, s1, default_text(n1, q)),
                                  {'pair': [{'mode': 'default', 'n': n0, 'quote': q}, {'mode': 'default', 'n': n1, 'quote': q}], 'limit': 3.0, 'sig': sig})
    for kind in KINDS:
        base = steps.get((kind, 25))
        if base is None:
            continue
        for n in sizes[1:]:
            s = steps.get((kind, n))
            if s is None:
                continue
            per = (s / n) / (base / 25)
            nratios += 1
            if per > 2.0:
                sig = 'C19|super-linear-in-file-size|%s' % kind
                ctx.add_violation(sig, 'per-declaration parsing cost of %d %s declarations is %.2fx the cost at 25 declarations '
                                       '(%d vs %d activations)' % (n, kind, per, s, base),
                                  {'pair': [{'mode': 'size', 'kind': kind, 'n': 25}, {'mode': 'size', 'kind': kind, 'n': n}],
                                   'limit': 2.0 * n / 25, 'sig': sig})
    return {
        'evaluations': len(cases) + len(hist) + len(deep) + len(dflt) + len(ecm),
        'distinct_nontrivial': len(steps) + len(dsteps) + len(nsteps),
        'rule': 'all (namespace depth a, template depth b) with a + b <= %d in 6 type positions, pure template chains to depth %d '
                '(short and long type names), files of n in %s declarations of 8 kinds, default expressions of 8..64 characters, namespace chains to the same depth, enums of 2..32 enumerators with comments between them, nested namespaces with sibling declarations around 5 classes to depth 12; '
                'cost = function activations in pyparsing and gtwrap.interface_parser; %d consecutive-depth / size ratios evaluated'
                % (Dmax, Ddeep, sizes, nratios),
        'samples': [chain_text('argument', 2, 3), {'worst_ratio': round(worst[0], 3), 'at': worst[1]}],
        'exhaustive': True,
        'worst_ratio': round(worst[0], 3),
        'cpu_seconds_total_evidence_only': round(cpu_total, 1),
    }
