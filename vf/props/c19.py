"""C19 — parsing cost stays polynomial in nesting depth and file size (exploration with a deterministic cost oracle).

Cost = number of Python function activations inside pyparsing while Module.parseString runs (counted with
sys.monitoring; identical on every run, no wall-clock in the verdict).  Enumerated completely:
  * every nesting chain (a namespaces deep, template arguments nested b deep) with a + b <= D, the templated type
    placed in each of 6 positions (argument, return type, property, typedef, base class, instantiation list);
  * files of n declarations of each of 8 kinds, n = 25 .. 200 (400).
Oracle: along every chain the cost ratio of consecutive depths is <= 1.7 from depth 6 on (a polynomial of degree
<= 3 gives <= 1.59 there; exponential re-parsing gives >= 2), and cost(n)/n stays within 2x of cost(25)/25.
"""
import sys
import time

from vf import dialect as D  # noqa: F401

ID = 'C19'
LEVEL = 'exploration'
ASSUMPTIONS = [
    'cost model: pyparsing function activations (deterministic); CPU time is recorded as evidence only',
    'thresholds: consecutive-depth ratio <= 1.7 for depth >= 6, per-declaration cost within 2x of the n = 25 value',
]

RATIO_MAX = 1.7
FROM_DEPTH = 6


def count_steps(text):
    import gtwrap.interface_parser as ip
    import pyparsing
    mon = sys.monitoring
    tool = mon.PROFILER_ID
    cnt = [0]
    pp = pyparsing.__file__.rsplit('/', 1)[0]

    def cb(code, off):
        if code.co_filename.startswith(pp):
            cnt[0] += 1
        else:
            return mon.DISABLE
    mon.use_tool_id(tool, 'vf-c19')
    mon.register_callback(tool, mon.events.PY_START, cb)
    mon.set_events(tool, mon.events.PY_START)
    t = time.process_time()
    try:
        pyparsing.ParserElement.reset_cache()
        ip.Module.parseString(text)
    finally:
        mon.set_events(tool, 0)
        mon.register_callback(tool, mon.events.PY_START, None)
        mon.free_tool_id(tool)
        mon.restart_events()
    return cnt[0], time.process_time() - t


def nested_type(b):
    s = 'ns::Leaf'
    for i in range(b):
        s = ('std::vector<%s>' if i % 2 == 0 else 'gt::Map<int, %s*>') % s
    return s


POSITIONS = {
    'argument': lambda t: 'void f(const %s& a, int b = 3);' % t,
    'return': lambda t: 'class A { %s get() const; };' % t,
    'property': lambda t: 'class A { %s value; };' % t,
    'typedef': lambda t: 'typedef %s Easy;' % t.replace('*', ''),
    'base-class': lambda t: 'virtual class A : %s {};' % t.replace('*', ''),
    'instantiation-list': lambda t: 'template<T = {%s, double}> class A { T get(); };' % t.replace('*', ''),
}


def chain_text(pos, a, b):
    body = POSITIONS[pos](nested_type(b))
    return ''.join('namespace n%d { ' % i for i in range(a)) + body + ' }' * a


KINDS = {
    'class': lambda i: 'class C%d { C%d(); C%d(int a, double b = 1.5); int get() const; static C%d Make(); double x; };' % (i, i, i, i),
    'function': lambda i: 'pair<int, ns::P*> f%d(const std::vector<int>& a, double b = 3, string s = "x, y");' % i,
    'enum': lambda i: 'enum class E%d { A, B, C };' % i,
    'variable': lambda i: 'const double kV%d = -9.81;' % i,
    'typedef': lambda i: 'typedef ns::T<int, ns::U<double>> Td%d;' % i,
    'forward': lambda i: 'virtual class ns::F%d : ns::Base;' % i,
    'include': lambda i: '#include <a/b%d.h>' % i,
    'namespace': lambda i: 'namespace n%d { class A {}; void f(); }' % i,
}


def measure(case):
    if case.get('after_failure'):
        # history: a malformed file was parsed (and rejected) earlier in this process
        import gtwrap.interface_parser as ip
        try:
            ip.Module.parseString('class Broken { void f( ; };')
        except Exception:
            pass
    if case['mode'] == 'chain':
        text = chain_text(case['pos'], case['a'], case['b'])
    else:
        text = '\n'.join(KINDS[case['kind']](i) for i in range(case['n']))
    try:
        steps, cpu = count_steps(text)
    except Exception as e:
        return {'viol': [{'sig': 'C19|rejected|%s' % case.get('pos', case.get('kind')),
                          'msg': 'input of the scaling family is rejected: %s\n%s' % (str(e)[:200], text[:300])}]}
    return {'viol': [], 'steps': steps, 'cpu': cpu, 'len': len(text)}


def replay(case):
    """A replay re-measures the two neighbouring points and re-evaluates the ratio."""
    viol = []
    if case.get('pair'):
        a, b = [measure(c) for c in case['pair']]
        r = b['steps'] / a['steps']
        if r > case['limit']:
            viol.append({'sig': case['sig'], 'msg': 'cost ratio %.2f > %.2f (%d -> %d steps)' % (r, case['limit'], a['steps'], b['steps'])})
    return viol


def run(ctx):
    Dmax = 16 if ctx.thorough else 10
    cases = []
    for pos in POSITIONS:
        for a in range(0, Dmax + 1):
            for b in range(1, Dmax + 1 - a):
                cases.append({'mode': 'chain', 'pos': pos, 'a': a, 'b': b})
    sizes = [25, 50, 100, 200] + ([400] if ctx.thorough else [])
    for kind in KINDS:
        for n in sizes:
            cases.append({'mode': 'size', 'kind': kind, 'n': n})
    # the same chains measured after a rejected input in the same process (pure template / pure namespace chains)
    hist = []
    for pos in ('argument', 'return'):
        for d in range(1, Dmax + 1):
            hist.append({'mode': 'chain', 'pos': pos, 'a': 0, 'b': d, 'after_failure': True})
            hist.append({'mode': 'chain', 'pos': pos, 'a': d - 1, 'b': 1, 'after_failure': True})
    res = ctx.map(measure, cases, chunksize=4)
    resh = ctx.map(measure, hist, chunksize=4)
    steps = {}
    cpu_total = 0.0
    for c, r in res:
        if 'steps' in r:
            key = (c['pos'], c['a'], c['b']) if c['mode'] == 'chain' else (c['kind'], c['n'])
            steps[key] = r['steps']
            cpu_total += r['cpu']
    worst = (0, None)
    nratios = 0
    # history independence: the cost after a rejected input equals the cost in a fresh process
    fresh = {(c['pos'], c['a'], c['b']): r.get('steps') for c, r in res if c['mode'] == 'chain'}
    for c, r in resh:
        f = fresh.get((c['pos'], c['a'], c['b']))
        if f and r.get('steps') and r['steps'] > 1.5 * f:
            sig = 'C19|cost-depends-on-earlier-rejected-input|%s' % c['pos']
            ctx.add_violation(sig, 'after a rejected input in the same process, parsing (namespace depth %d, template depth %d, %s) costs '
                                   '%d activations instead of %d' % (c['a'], c['b'], c['pos'], r['steps'], f),
                              {'pair': [dict(c, after_failure=False), c], 'limit': 1.5, 'sig': sig})
    for pos in POSITIONS:
        for a in range(0, Dmax + 1):
            for b in range(1, Dmax + 1 - a):
                s0 = steps.get((pos, a, b))
                if s0 is None:
                    continue
                for (a2, b2, idx, axis) in ((a, b + 1, b, 'template-depth'), (a + 1, b, a, 'namespace-depth')):
                    s1 = steps.get((pos, a2, b2))
                    if s1 is None or idx < FROM_DEPTH:
                        continue
                    r = s1 / s0
                    nratios += 1
                    if r > worst[0]:
                        worst = (r, (pos, a, b, axis))
                    if r > RATIO_MAX:
                        sig = 'C19|super-polynomial|%s|%s' % (axis, pos)
                        ctx.add_violation(sig, 'parsing cost grows by a factor %.2f (> %.2f) from %s=%d to %d in position %s '
                                               '(other depth fixed at %d): %d -> %d pyparsing activations\n--- input ---\n%s'
                                          % (r, RATIO_MAX, axis, idx, idx + 1, pos, b if axis == 'namespace-depth' else a, s0, s1,
                                             chain_text(pos, a2, b2)[:400]),
                                          {'pair': [{'mode': 'chain', 'pos': pos, 'a': a, 'b': b}, {'mode': 'chain', 'pos': pos, 'a': a2, 'b': b2}],
                                           'limit': RATIO_MAX, 'sig': sig})
    for kind in KINDS:
        base = steps.get((kind, 25))
        if base is None:
            continue
        for n in sizes[1:]:
            s = steps.get((kind, n))
            if s is None:
                continue
            per = (s / n) / (base / 25)
            nratios += 1
            if per > 2.0:
                sig = 'C19|super-linear-in-file-size|%s' % kind
                ctx.add_violation(sig, 'per-declaration parsing cost of %d %s declarations is %.2fx the cost at 25 declarations '
                                       '(%d vs %d activations)' % (n, kind, per, s, base),
                                  {'pair': [{'mode': 'size', 'kind': kind, 'n': 25}, {'mode': 'size', 'kind': kind, 'n': n}],
                                   'limit': 2.0 * n / 25, 'sig': sig})
    return {
        'evaluations': len(cases) + len(hist),
        'distinct_nontrivial': len(steps),
        'rule': 'all (namespace depth a, template depth b) with a + b <= %d in 6 type positions, and files of n in %s declarations '
                'of 8 kinds; cost = pyparsing function activations; %d consecutive-depth / size ratios evaluated'
                % (Dmax, sizes, nratios),
        'samples': [chain_text('argument', 2, 3), {'worst_ratio': round(worst[0], 3), 'at': worst[1]}],
        'exhaustive': True,
        'worst_ratio': round(worst[0], 3),
        'cpu_seconds_total_evidence_only': round(cpu_total, 1),
    }
