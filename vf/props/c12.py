"""C12 — layout and comments never change the result (bounded-exhaustive exploration).

Seed corpus (every grammar production in every nesting context) x every gap between adjacent dialect tokens
(plus before the first and after the last token) x a filler alphabet (whitespace kinds, C and C++ comments with
braces / semicolons / quotes / keywords, multi-line and star-heavy block comments, several comments in a row);
plus "every gap filled with filler f" and (thorough) all pairs of gaps on the small seeds.
Oracle: identical parse-tree projection, and byte-identical pybind output and MATLAB file tree.
"""
import itertools

from vf import dialect as D
from vf import gen
from vf.dialect import T, arg, single, pair

ID = 'C12'
LEVEL = 'exploration'
ASSUMPTIONS = [
    'dialect terminals are atomic: multi-word keywords, #include <header>, std::, __dunder__ names and default-value expressions are never split (the statement says defaults count as single tokens)',
    'the canonical layout (one space between tokens) is the reference; generator outputs are compared for every all-gaps variant and every 5th single-gap variant, parse trees for all',
]

FILLERS = [' ', '\n', '\t\r\n  ', '/**/', ' /* x */ ', '/* { ; } " \' class */', ' // ; } { class\n', '/*\n * multi\n * line ;\n */',
           '/** banner **/', '/***/', '//\n', '/* a */ /* b **/', '// c1\n  // c2 */\n', '/* // */', '// /*\n',
           '/* void serialize() const; serializable; #include <x.h> virtual template<T = {int}> typedef enum namespace n { } */',
           '// ff\x0c class Q1 { } ; vt\x0b fs\x1c gs\x1d rs\x1e nel\x85 class Q2 { } ; ls\u2028 ps\u2029 } ; {\n',
           '/* \x0c \x0b \x85 \u2028 \u2029 ; } */',
           '// only a closing brace }\n', '/* only an opening brace { ( [ < */',
           '/* note:\n# pragma once; see above */', '/*\n#if 0\n#endif */ // #define X\n']


def seeds():
    I = T('int')
    s = {}
    s['class'] = [D.include('a/b.h'), D.ns('gt', [
        D.fwd('x::A', 1, 'x::B'),
        D.cls('Foo', [D.ctor('Foo', [arg(I, 'a', '3'), arg(T('string', 1, '&'), 's', '"x, y"')]),
                      D.method(pair(T('gt::A', 1, '&'), T('double')), 'f', [arg(T('std::vector', t=[T('ns::X', 0, '*')]), 'v', '{1, 2}')], 1),
                      D.static(single(T('This')), 'Create', []), D.prop(I, 'x'), D.prop(T('double', 1), 'y', '2.5'),
                      D.op(single(T('Foo')), '+', [arg(T('Foo', 1, '&'), 'o')]), D.op(single(T('Foo')), '-', []),
                      D.op(single(T('double')), '()', [arg(I, 'i')]),
                      D.enum('E', ['A', 'B'], 'enum class'), D.dunder('len'), D.dunder('contains', [arg(I, 'k')])],
              v=1, b=T('gt::Base', t=[T('double')])),
        D.cls('Empty')])]
    s['templates'] = [D.ns('gt', [
        D.cls('Tc', [D.ctor('Tc', [arg(T('T', 1, '&'), 'v')]), D.method(single(T('T')), 'get', [], 1),
                     D.method(single(T('U')), 'as', [arg(T('U', 1, '&'), 'u'), arg(T('unsigned char'), 'c')],
                              tpl=[D.tparam('U', [I, T('ns::Rot')])]),
                     D.static(single(T('T::Value')), 'val', [arg(T('T', 0, '@'), 'p')])],
              tpl=[D.tparam('T', [T('double'), T('std::vector', t=[T('n::Y')])]), D.tparam('K', [T('3')])]),
        D.typedef(T('gt::Bar', t=[I, T('ns::X')]), 'BarI'),
        D.cls('Bar', [D.method(single(T('A')), 'get', [arg(T('B'), 'b')])], tpl=[D.tparam('A'), D.tparam('B')]),
        D.func(single(T('Q')), 'g', [arg(T('Q', 1, '&'), 'c'), arg(I, 'k', 'f(1, g(2))')], tpl=[D.tparam('Q', [I, T('ns::Pose')])])])]
    s['mixed'] = [D.include('x.h'), D.enum('Kind', ['Dog', 'Cat']), D.var(T('double', 1), 'kG', '-9.81'), D.var(I, 'n'),
                  D.func(pair(I, T('ns::P', 0, '*'), std=1), 'h', [arg(T('bool'), 'b', 'true'), arg(T('char'), 'c', "'c'")]),
                  D.func(single(T('void')), 'h', []),
                  D.ns('a', [D.ns('b', [D.cls('In', [D.ctor('In')]), D.enum('Eb', ['X'], 'enum struct'), D.var(T('string'), 'name', '"n"')]),
                             D.func(single(T('size_t')), 'fa', [arg(T('a::b::In', 1, '&'), 'i')])]),
                  D.ns('empty', []), D.fwd('Later'), D.typedef(T('Later', t=[T('a::b::In')]), 'LaterIn')]
    s['inherit'] = [D.ns('gt', [D.cls('Ba', [D.ctor('Ba'), D.method(single(I), 'base', [], 1)], v=1),
                                D.cls('De', [D.ctor('De'), D.ctor('De', [arg(I, 'a', '1'), arg(T('double'), 'b', '2.0')]),
                                             D.method(single(T('void')), 'serialize', [], 1),
                                             D.method(single(T('void')), 'print', [arg(T('string', 1, '&'), 's', '""')], 1)],
                                      v=1, b=T('gt::Ba'))]),
                    D.func(single(T('gt::De', 0, '*')), 'make', [arg(T('gt::Ba', 0, '*'), 'b')])]
    return s


SMALL = {
    'tiny-class': [D.cls('A', [D.ctor('A', [arg(T('int'), 'a', '1')]), D.method(single(T('int')), 'f', [], 1)])],
    'tiny-func': [D.ns('n', [D.func(single(T('V', t=[T('int')])), 'f', [arg(T('int', 1, '&'), 'a')], tpl=[D.tparam('T', [T('int')])])])],
}


def atomic_tokens(mod):
    """Dialect tokens with the atomic groups fused: '#include <h>' header, 'std::' + 'pair' stay separable."""
    toks = D.tokens(mod)
    out = []
    i = 0
    while i < len(toks):
        if toks[i] == '<' and i and toks[i - 1] == '#include':
            out.append('<' + toks[i + 1] + '>')
            i += 3
            continue
        out.append(toks[i])
        i += 1
    return out


def layout(toks, fill):
    """fill: dict gap index -> filler (gap g sits before token g; gap len(toks) is after the last token).
    Unfilled gaps get one space."""
    out = []
    for g in range(len(toks) + 1):
        f = fill.get(g)
        if f is None:
            f = ' ' if 0 < g < len(toks) else ''
        out.append(f)
        if g < len(toks):
            out.append(toks[g])
    text = ''.join(out)
    # an include directive ends at its '>'; keep what follows on the same line legal: nothing to do, tokens are
    # separated by the fillers themselves
    return text


def outputs(text):
    res = {}
    try:
        res['tree'] = D.observe(text)
    except Exception as e:
        res['tree'] = 'EXC %s' % type(e).__name__
        res['tree_msg'] = str(e)[:200]
    return res


def gen_outputs(text):
    res = {}
    try:
        res['py'] = gen.pybind(text, serialization=True)
    except Exception as e:
        res['py'] = 'EXC %s' % type(e).__name__
    try:
        res['ml'] = gen.matlab(text, serialization=True)
    except Exception as e:
        res['ml'] = 'EXC %s' % type(e).__name__
    return res


_ref = {}


def reference(seedname):
    if seedname not in _ref:
        mod = dict(seeds(), **SMALL)[seedname]
        toks = atomic_tokens(mod)
        text = layout(toks, {})
        r = outputs(text)
        if isinstance(r['tree'], str):
            # the one-blank layout is rejected: take the one-token-per-line layout as the reference instead (the
            # rejection of the one-blank layout is then reported as a violation by check_case)
            for alt in (layout(toks, {g: '\n' for g in range(1, len(toks))}), D.render(mod), D.render_tight(mod)):
                r2 = outputs(alt)
                if not isinstance(r2['tree'], str):
                    r2['single_blank_layout_rejected'] = r.get('tree_msg')
                    r, text = r2, alt
                    break
        r.update(gen_outputs(text))
        _ref[seedname] = (toks, r)
    return _ref[seedname]


def check_case(case):
    toks, ref = reference(case['seed'])
    fill = {int(g): FILLERS[f] for g, f in case['fill'].items()}
    text = layout(toks, fill)
    viol = []
    got = outputs(text)
    kind = 'gap'
    if len(fill) == 1:
        g = next(iter(fill))
        before = toks[g - 1] if g > 0 else '<start>'
        after = toks[g] if g < len(toks) else '<end>'
        kind = 'between %s and %s' % (tokclass(before), tokclass(after))
    fl = '+'.join(sorted({fclass(FILLERS[f]) for f in case['fill'].values()}))
    # a comment glued (no white space) to the end of a default-value expression: the default is an arbitrary
    # verbatim text, so this is the one place where the dialect cannot tell where the token ends
    glued = [g for g, f in fill.items() if 0 < g and is_default(toks, g - 1) and not f[0].isspace()]
    if glued:
        if len(fill) == 1:
            kind = 'comment-glued-to-default-value'
        else:
            for g in glued:
                fill[g] = ' ' + fill[g]
            text = layout(toks, fill)
            got = outputs(text)
    if ref.get('single_blank_layout_rejected'):
        viol.append({'sig': 'C12|rejected|whitespace|one-blank-between-all-tokens',
                     'msg': 'the layout with exactly one blank between all tokens is rejected (%s) while another layout of the same tokens '
                            '(one token per line / the conventional one) is accepted\n--- input ---\n%s' % (ref['single_blank_layout_rejected'], layout(toks, {})[:600])})
    if isinstance(ref['tree'], str):
        raise RuntimeError('reference layout of seed %s does not parse: %s' % (case['seed'], ref.get('tree_msg')))
    if got['tree'] != ref['tree']:
        if isinstance(got['tree'], str):
            msg = 're-laid-out input is rejected (%s: %s)' % (got['tree'], got.get('tree_msg'))
            sig = 'C12|rejected|%s|%s' % (fl, kind)
        else:
            msg = 'parse tree changes: ' + str(D.diff(ref['tree'], got['tree']))
            sig = 'C12|tree-differs|%s|%s' % (fl, kind)
        viol.append({'sig': sig, 'msg': '%s\nfillers at gaps %s\n--- re-laid-out input ---\n%s' % (msg, {g: FILLERS[f] for g, f in case['fill'].items()}, text)})
    if case.get('gen'):
        go = gen_outputs(text)
        for k in ('py', 'ml'):
            if go[k] != ref[k]:
                viol.append({'sig': 'C12|%s-output-differs|%s|%s' % (k, fl, kind),
                             'msg': '%s output is not byte-identical to the canonical layout\n--- re-laid-out input ---\n%s' % (k, text)})
    return {'viol': viol}


def is_default(toks, i):
    return i >= 1 and toks[i - 1] == '=' and toks[i] != '{'


def tokclass(t):
    if t in ('<start>', '<end>'):
        return t
    if t[0].isalpha() or t[0] == '_':
        return 'word'
    if t[0].isdigit() or t[0] in '"\'-' and len(t) > 1:
        return 'literal'
    return repr(t)


def check_boundary(case):
    """A declaration after `//` on the same line is a comment, on the next line it is code -- whichever of the two
    texts (equal as sequences of blank-separated words) was parsed first in this process."""
    toks, ref = reference(case['seed'])
    base = layout(toks, {})
    extra = 'class Zq9 { Zq9 ( ) ; } ;'
    commented = base + ' // ' + extra + '\n'
    declared = base + ' //\n' + extra + '\n'
    want_declared = outputs(base + ' ' + extra)['tree']
    viol = []
    order = [('commented', commented), ('declared', declared)]
    if case['first'] == 'declared':
        order.reverse()
    for name, text in order + order:
        got = outputs(text)['tree']
        want = ref['tree'] if name == 'commented' else want_declared
        if got != want:
            viol.append({'sig': 'C12|comment-boundary|%s-after-the-other' % name,
                         'msg': 'a declaration %s gives %s\n--- input (parsed %s in this process) ---\n%s'
                                % ('after // on the same line must be ignored' if name == 'commented' else 'on the line after // must be parsed',
                                   got if isinstance(got, str) else 'a different tree: ' + str(D.diff(want, got)),
                                   'second' if name == order[1][0] else 'first', text[-200:])})
            break
    return {'viol': viol}


def fclass(f):
    if f.strip() == '':
        return 'whitespace'
    if '/*' in f and '//' in f:
        return 'mixed-comments'
    if f.lstrip().startswith('//'):
        return 'line-comment'
    return 'block-comment'


def replay(case):
    if case.get('first'):
        return check_boundary(case)['viol']
    return check_case(case)['viol']


def run(ctx):
    cases = []
    S = seeds()
    nf = len(FILLERS)
    single = list(range(nf)) if ctx.thorough else [0, 1, 3, 5, 6, 7, 8, 11, 12, 16, 18, 20]
    for name, mod in list(S.items()) + list(SMALL.items()):
        n = len(atomic_tokens(mod))
        k = 0
        for g in range(n + 1):
            for f in single:
                cases.append({'seed': name, 'fill': {str(g): f}, 'gen': (k % 5 == 0) or name in SMALL})
                k += 1
        for f in range(nf):
            cases.append({'seed': name, 'fill': {str(g): f for g in range(n + 1)}, 'gen': True})
            # alternating fillers
            cases.append({'seed': name, 'fill': {str(g): (f + g) % nf for g in range(n + 1)}, 'gen': True})
    if ctx.thorough:
        for name, mod in SMALL.items():
            n = len(atomic_tokens(mod))
            for g1, g2 in itertools.combinations(range(n + 1), 2):
                for f1, f2 in itertools.product((3, 5, 6, 8, 11), repeat=2):
                    cases.append({'seed': name, 'fill': {str(g1): f1, str(g2): f2}, 'gen': False})
    res = ctx.map(check_case, cases)
    bcases = [{'seed': name, 'first': first} for name in list(S) + list(SMALL) for first in ('commented', 'declared')]
    resb = ctx.map(check_boundary, bcases, chunksize=1)
    return {
        'evaluations': len(cases) + len(bcases),
        'distinct_nontrivial': len({(c['seed'], tuple(sorted(c['fill'].items()))) for c in cases}),
        'rule': '%d seed modules (%s) x every token gap x %d fillers (12 of them in the quick tier), all-gaps and alternating variants%s, and per seed the pair `// decl` / `//<newline>decl` parsed in both orders within one process; distinct by '
                '(seed, gap->filler map); generator outputs compared on %d of them'
                % (len(S) + len(SMALL), ', '.join(list(S) + list(SMALL)), nf,
                   '; all gap pairs x 25 filler pairs on the two small seeds' if ctx.thorough else '',
                   sum(1 for c in cases if c['gen'])),
        'samples': [layout(atomic_tokens(S['mixed']), {5: FILLERS[5]})[:600],
                    layout(atomic_tokens(SMALL['tiny-class']), {g: FILLERS[8] for g in range(40)})[:400]],
        'exhaustive': True,
        'tokens_per_seed': {k: len(atomic_tokens(v)) for k, v in list(S.items()) + list(SMALL.items())},
    }
