"""C06 — MATLAB overload guards, default expansion and C++ marshalling line up (bounded-exhaustive exploration).

Callables = kind {constructor, method, static method, free function} x arity n in 0..3 (4) x every trailing default
count k in 0..n x passing mode of one deviating parameter (15 modes; thorough: two deviating parameters) x return
shape (13) x scope.  For every callable the reference model states: the arities offered (n..n-k); per arity the
.m guard (argument count, MATLAB class of every argument); the C++ routine's expected count, the unwrap statement
of every parameter (function, template argument, in[] index, declared passing mode), the call (declared entity,
arguments in order, omitted defaults' original text) and the wrapping of the result with the .m-side output
assignment.  Everything is read from the real generator output with the mini-MATLAB parser and a C++ body scanner.
"""
import itertools
import re

from vf import dialect as D
from vf import gen, minimatlab as mm
from vf.dialect import T, arg, single, pair

ID = 'C06'
LEVEL = 'exploration'
ASSUMPTIONS = [
    'MATLAB class expected for a declared type: int/size_t -> numeric, double/Vector/Matrix -> double, bool -> logical, char/string -> char, unsigned char -> uint8, class and enum types -> their dotted package name',
    'C++ side conventions of matlab.h: unwrap< T > for basic types/string/Vector/Matrix, unwrap_shared_ptr< C > (dereferenced for value and reference parameters), unwrap_ptr< C > for raw pointers, unwrap_enum<E> for enums',
    'Vector/Matrix stand for gtsam::Vector/gtsam::Matrix (no Eigen in the image: text-level check only; execution is C11)',
]

A = 'gt::Arg'
MODES = {   # label -> (type spec, matlab class, unwrap kind, C++ type in unwrap template arg, call deref)
    'int': (T('int'), 'numeric', 'unwrap', 'int', ''),
    'double': (T('double'), 'double', 'unwrap', 'double', ''),
    'bool': (T('bool'), 'logical', 'unwrap', 'bool', ''),
    'size_t': (T('size_t'), 'numeric', 'unwrap', 'size_t', ''),
    'char': (T('char'), 'char', 'unwrap', 'char', ''),
    'uchar': (T('unsigned char'), 'uint8', 'unwrap', 'unsigned char', ''),
    'string': (T('string'), 'char', 'unwrap', 'string', ''),
    'const-string-ref': (T('string', 1, '&'), 'char', 'unwrap', 'string', ''),
    'Vector': (T('Vector', 1, '&'), 'double', 'unwrap', 'Vector', ''),
    'Matrix': (T('Matrix'), 'double', 'unwrap', 'Matrix', ''),
    'Point2': (T('Point2', 1, '&'), 'double', 'unwrap', 'Point2', ''),
    'Point3': (T('Point3'), 'double', 'unwrap', 'Point3', ''),
    'obj-value': (T(A), 'gt.Arg', 'unwrap_shared_ptr', 'gt::Arg', '*'),
    'obj-cref': (T(A, 1, '&'), 'gt.Arg', 'unwrap_shared_ptr_deref', 'gt::Arg', ''),
    'obj-shared': (T(A, 0, '*'), 'gt.Arg', 'unwrap_shared_ptr', 'gt::Arg', ''),
    'obj-raw': (T(A, 0, '@'), 'gt.Arg', 'unwrap_ptr', 'gt::Arg', ''),
    # templated container types: the same template with different arguments in the same slot of neighbouring callables
    'vec-int': (T('std::vector', t=[T('int')]), 'std.vectorint', 'unwrap_shared_ptr', 'std::vector<int>', '*'),
    'vec-arg-cref': (T('std::vector', 1, '&', [T('gt::Arg')]), 'std.vectorArg', 'unwrap_shared_ptr_deref', 'std::vector<gt::Arg>', ''),
    'map-shared': (T('std::map', 0, '*', [T('int'), T('gt::Arg')]), 'std.mapintArg', 'unwrap_shared_ptr', 'std::map<int,gt::Arg>', ''),
    # classes whose names look like something else: gtsam's Key, a name containing "string"
    'key-value': (T('gt::Key'), 'gt.Key', 'unwrap_shared_ptr', 'gt::Key', '*'),
    'substring-value': (T('gt::Substring'), 'gt.Substring', 'unwrap_shared_ptr', 'gt::Substring', '*'),
    'ns-enum': (T('gt::Kind'), 'gt.Kind', 'unwrap_enum', 'gt::Kind', ''),
    'class-enum': (T('gt::Host::Mode'), 'gt.Host.Mode', 'unwrap_enum', 'gt::Host::Mode', ''),
}
DEFAULTS = {'int': '41', 'double': '4.5', 'bool': 'true', 'size_t': 'size_t{0}', 'char': "'q'", 'uchar': '200', 'string': '"dflt"',
            'const-string-ref': '"ref, dflt"', 'Vector': 'Vector()', 'Matrix': 'Matrix::Identity(2, 2)',
            'Point2': 'Point2(1, 2)', 'Point3': 'Point3(1, 2, 3)',
            'obj-value': 'gt::Arg()', 'obj-cref': 'gt::Arg(1)', 'obj-shared': 'nullptr', 'obj-raw': 'nullptr',
            'ns-enum': 'gt::Kind::Cat', 'class-enum': 'gt::Host::Mode::SLOW',
            'vec-int': 'std::vector<int>{1, 2}', 'vec-arg-cref': 'std::vector<gt::Arg>()', 'map-shared': 'nullptr',
            'key-value': 'gt::Key{}', 'substring-value': 'gt::Substring()'}

RETURNS = {   # label -> (ret spec, expected out wraps (list of (kind, type text)), .m outputs)
    'void': (single(T('void')), [], 0),
    'int': (single(T('int')), [('wrap', 'int')], 1),
    'double': (single(T('double')), [('wrap', 'double')], 1),
    'bool': (single(T('bool')), [('wrap', 'bool')], 1),
    'string': (single(T('string')), [('wrap', 'string')], 1),
    'Vector': (single(T('Vector')), [('wrap', 'Vector')], 1),
    'Matrix': (single(T('Matrix')), [('wrap', 'Matrix')], 1),
    'obj': (single(T(A)), [('wrap_shared_ptr_make', 'gt::Arg', 'gt.Arg')], 1),
    'shared': (single(T(A, 0, '*')), [('wrap_shared_ptr', 'gt.Arg')], 1),
    'pair-int-double': (pair(T('int'), T('double')), [('wrap', 'int'), ('wrap', 'double')], 2),
    'pair-obj-shared': (pair(T(A), T(A, 0, '*')), [('wrap_shared_ptr_make', 'gt::Arg', 'gt.Arg'), ('wrap_shared_ptr', 'gt.Arg')], 2),
    'pair-Vector-obj': (pair(T('Vector'), T(A)), [('wrap', 'Vector'), ('wrap_shared_ptr_make', 'gt::Arg', 'gt.Arg')], 2),
    'ns-enum': (single(T('gt::Kind')), [('wrap_enum', 'gt.Kind')], 1),
    # a class whose name contains the letters "void"
    'obj-voidname': (single(T('gt::Avoider')), [('wrap_shared_ptr_make', 'gt::Avoider', 'gt.Avoider')], 1),
    'pair-voidname': (pair(T('gt::Avoider', 0, '*'), T('int')), [('wrap_shared_ptr', 'gt.Avoider'), ('wrap', 'int')], 2),
    'pair-obj-obj': (pair(T(A), T(A)), [('wrap_shared_ptr_make', 'gt::Arg', 'gt.Arg'), ('wrap_shared_ptr_make', 'gt::Arg', 'gt.Arg')], 2),
    'pair-shared-obj': (pair(T(A, 0, '*'), T('gt::Avoider')), [('wrap_shared_ptr', 'gt.Arg'), ('wrap_shared_ptr_make', 'gt::Avoider', 'gt.Avoider')], 2),
    # raw-pointer returns (`T@`): the pointer is handed on as it is, alone and as either component of a pair
    'raw': (single(T(A, 0, '@')), [('wrap_shared_ptr', 'gt.Arg')], 1),
    'pair-raw-int': (pair(T(A, 0, '@'), T('int')), [('wrap_shared_ptr', 'gt.Arg'), ('wrap', 'int')], 2),
    'pair-shared-raw': (pair(T(A, 0, '*'), T('gt::Avoider', 0, '@')), [('wrap_shared_ptr', 'gt.Arg'), ('wrap_shared_ptr', 'gt.Avoider')], 2),
    'obj-stringname': (single(T('gt::Substring')), [('wrap_shared_ptr_make', 'gt::Substring', 'gt.Substring')], 1),
    'obj-keyname': (single(T('gt::Key')), [('wrap_shared_ptr_make', 'gt::Key', 'gt.Key')], 1),
}

# shape tests the guard adds for fixed-size types: mode -> {dimension: extent}
SIZES = {'Vector': {2: 1}, 'Point2': {1: 2, 2: 1}, 'Point3': {1: 3, 2: 1}}

NAMES = ['alpha', 'a', 'alp', 'ha', 'l']     # later names are substrings of earlier ones on purpose


def signatures(thorough):
    """All (modes list, k) of the family."""
    out = []
    maxn = 5 if thorough else 4
    for n in range(0, maxn + 1):
        if n == 0:
            out.append(([], 0))
            continue
        for k in range(0, n + 1):
            out.append((['int'] * n, k))
            for p in range(n):
                for m in MODES:
                    if m == 'int':
                        continue
                    ms = ['int'] * n
                    ms[p] = m
                    out.append((ms, k))
    if thorough:
        for n in (2, 3):
            for p1, p2 in itertools.combinations(range(n), 2):
                for m1, m2 in itertools.product([m for m in MODES if m != 'int'], repeat=2):
                    ms = ['int'] * n
                    ms[p1], ms[p2] = m1, m2
                    for k in (0, n):
                        out.append((ms, k))
    return out


KINDS = ['method', 'static', 'function', 'ctor']


def build_module(kind, items, scope, layout='support-first'):
    return _scoped(_build_module(kind, items, layout), scope)


def _scoped(res, scope):
    """Move the whole unit from namespace gt to `scope` ('' = global, 'gt', 'gt::inner')."""
    import json
    mod, exp = res
    if scope == 'gt':
        return mod, exp
    pre = scope + '::' if scope else ''
    js = json.dumps([mod[0]['c'], [dict(e, args=e['args']) for e in exp]])
    js = js.replace('gt::', pre)
    body, exp2 = json.loads(js)
    path = [p for p in scope.split('::') if p]
    for n in reversed(path):
        body = [D.ns(n, body)]
    return body, exp2


def _build_module(kind, items, layout='support-first'):
    """items: list of dicts {modes, k, ret}; returns (module spec, list of expected callables)."""
    members, funcs, exp = [], [], []
    support = [D.enum('Kind', ['Dog', 'Cat']), D.cls('Arg', [D.ctor('Arg')]), D.cls('Avoider', [D.ctor('Avoider')]),
               D.cls('Key', [D.ctor('Key')]), D.cls('Substring', [D.ctor('Substring')])]
    host_members = [D.enum('Mode', ['FAST', 'SLOW'], 'enum class'), D.ctor('Host')]
    extra_classes = []
    for i, it in enumerate(items):
        n = len(it['modes'])
        args = []
        for j, m in enumerate(it['modes']):
            dflt = DEFAULTS[m] if j >= n - it['k'] else None
            args.append(arg(MODES[m][0], NAMES[j], dflt))
        r = RETURNS[it['ret']][0]
        name = it.get('name') or {'method': 'm', 'static': 's', 'function': 'fn', 'ctor': 'Ct'}[kind] + str(i)
        e = dict(it, name=name, kind=kind, args=args)
        if kind == 'method':
            host_members.append(D.method(r, name, args, i % 2))
        elif kind == 'static':
            host_members.append(D.static(r, name, args))
        elif kind == 'function':
            funcs.append(D.func(r, name, args))
        else:
            same = [c for c in extra_classes if c['n'] == name]
            if same:
                same[0]['m'].append(D.ctor(name, args))
            else:
                extra_classes.append(D.cls(name, [D.ctor(name, args)]))
        exp.append(e)
    if layout == 'reopened-ns':
        # namespace gt is opened twice: an earlier block with a class that has a method, then the block with everything
        early = D.cls('Early', [D.ctor('Early'), D.method(single(T('int')), 'early', [arg(T('int'), 'e')], 1)])
        return [D.ns('gt', [early]), D.ns('gt', support + [D.cls('Host', host_members)] + extra_classes + funcs)], exp
    if layout == 'global-names-like-classes':
        # unrelated enums in the enclosing (global) scope that are called like the classes used as parameter types
        return [D.enum('Arg', ['A0', 'A1']), D.enum('Avoider', ['V0']), D.enum('Key', ['K0']),
                D.ns('gt', support + [D.cls('Host', host_members)] + extra_classes + funcs)], exp
    if layout == 'same-names-in-an-earlier-namespace':
        # classes called like the argument classes exist in another namespace that is declared first
        return [D.ns('aa', [D.cls('Arg', [D.ctor('Arg')]), D.cls('Avoider', [D.ctor('Avoider')]), D.cls('Key', [D.ctor('Key')]),
                            D.cls('Substring', [D.ctor('Substring')]), D.enum('Kind', ['Other'])]),
                D.ns('gt', support + [D.cls('Host', host_members)] + extra_classes + funcs)], exp
    if layout == 'support-last':
        # the enum and the argument class are declared after everything that uses them
        body = [D.cls('Host', host_members)] + extra_classes + funcs + support
    else:
        body = support + [D.cls('Host', host_members)] + extra_classes + funcs
    return [D.ns('gt', body)], exp


# ------------------------------------------------------------------ scanning a routine body
def scan_routine(body):
    facts = {'unwraps': [], 'check': None, 'obj': None, 'call': None, 'outs': [], 'raw': body}
    m = re.search(r'checkArguments\("([^"]*)",nargout,nargin(-1)?,(\d+)\)', body)
    if m:
        facts['check'] = (m.group(1), bool(m.group(2)), int(m.group(3)))
    m = re.search(r'auto obj = unwrap_shared_ptr<(.+?)>\(in\[0\], "ptr_(\w+)"\);', body)
    if m:
        facts['obj'] = (gen.tight(m.group(1)), m.group(2))
    for line in body.split('\n'):
        s = line.strip()
        mm_ = re.match(r'^(.+?)\s+(\w+) = (\*)?(unwrap_shared_ptr|unwrap_ptr|unwrap_enum|unwrap)<\s*(.+?)\s*>\(in\[(\d+)\](?:, "ptr_(\w+)")?\);$', s)
        if mm_ and mm_.group(2) != 'obj':
            facts['unwraps'].append({'decl': gen.tight(mm_.group(1)), 'name': mm_.group(2), 'deref': bool(mm_.group(3)),
                                     'fn': mm_.group(4), 'targ': gen.tight(mm_.group(5)), 'idx': int(mm_.group(6)),
                                     'ptr': mm_.group(7)})
    return facts


def find_call(body, callee_pattern):
    """Find `<callee>(args)` in the body; return (callee text, [args])."""
    m = re.search(callee_pattern + r'\(', body)
    if not m:
        return None
    i = m.end() - 1
    j = gen.match_bracket(body, i)
    inner = body[i + 1:j]
    args = [a.strip() for a in gen.split_top(inner)] if inner.strip() else []
    return body[m.start():i], args, body[:m.start()], body[j + 1:]


def expected_unwrap(mode, name, idx):
    t, mcls, kind, cpp, deref = MODES[mode]
    if kind == 'unwrap':
        return {'fn': 'unwrap', 'targ': cpp, 'idx': idx, 'name': name, 'deref': False}
    if kind == 'unwrap_shared_ptr':
        return {'fn': 'unwrap_shared_ptr', 'targ': cpp, 'idx': idx, 'name': name, 'deref': False}
    if kind == 'unwrap_shared_ptr_deref':
        return {'fn': 'unwrap_shared_ptr', 'targ': cpp, 'idx': idx, 'name': name, 'deref': True}
    if kind == 'unwrap_ptr':
        return {'fn': 'unwrap_ptr', 'targ': cpp, 'idx': idx, 'name': name, 'deref': False}
    if kind == 'unwrap_enum':
        return {'fn': 'unwrap_enum', 'targ': cpp, 'idx': idx, 'name': name, 'deref': False}


def check_unit(case):
    kind, items = case['kind'], case['items']
    scope = case.get('scope', 'gt')
    mod, exp = build_module(kind, items, scope, case.get('layout', 'support-first'))
    cpre = scope + '::' if scope else ''
    mpre = cpre.replace('::', '.')
    fpre = ''.join('+%s/' % p for p in scope.split('::') if p)

    def sc(x):
        """re-scope an expectation string written for namespace gt"""
        return x.replace('gt::', cpre).replace('gt.', mpre) if isinstance(x, str) else x
    text = D.render(mod)
    viol = []

    def add(sig, msg, e=None):
        viol.append({'sig': sig, 'msg': '%s\n%s\n--- input (excerpt) ---\n%s' % (msg, describe(e) if e else '', excerpt(text, e))})
    try:
        tree = gen.matlab(text)
    except Exception as ex:
        # find the offending callable by bisection over single-item modules
        if len(items) > 1:
            out = {'viol': [], 'n': 0}
            for it in items:
                r = check_unit({'kind': kind, 'items': [it], 'scope': scope, 'layout': case.get('layout', 'support-first')})
                out['viol'] += r['viol']
            return out
        e = exp[0]
        return {'viol': [{'sig': 'C06|exception|%s|%s|%s' % (kind, type(ex).__name__, sigkey(e)),
                          'msg': 'generator raised %s: %s\n%s\n--- input ---\n%s' % (type(ex).__name__, str(ex)[:300], describe(e), text)}]}
    mex = gen.scan_mex(tree['mod_wrapper.cpp'])
    id2routine = {cid: calls[0] for cid, calls in mex['cases'] if calls}
    nchecked = 0
    for ei, e in enumerate(exp):
        n, k = len(e['modes']), e['k']
        want_arities = list(range(n, n - k - 1, -1))
        # overload set: the branches of all same-named callables follow each other in declaration order
        group = [p for p in exp if p['name'] == e['name']]
        first = sum(p['k'] + 1 for p in exp[:ei] if p['name'] == e['name'])
        total = sum(p['k'] + 1 for p in group)
        # --- locate the .m function and its guarded call sites
        if kind in ('function', 'ctor'):
            path = fpre + '%s.m' % e['name']
        else:
            path = fpre + 'Host.m'
        if path not in tree:
            add('C06|missing-m-file|%s' % kind, 'no file %s' % path, e)
            continue
        try:
            ast = mm.parse_file(tree[path], path)
        except mm.ParseError as pe:
            add('C06|unparsable-m|%s' % kind, 'cannot parse %s: %s' % (path, pe), e)
            continue
        if kind == 'function':
            fbody = ast[1]['body']
        elif kind == 'ctor':
            fbody = [f for f in ast['methods'] if f['name'] == e['name']][0]['body']
            path = fpre + '%s.m' % e['name']
        else:
            fl = ast['static'] if kind == 'static' else ast['methods']
            fs = [f for f in fl if f['name'] == e['name']]
            if len(fs) != 1:
                add('C06|m-function-count|%s' % kind, 'expected one function %s in %s, found %d' % (e['name'], path, len(fs)), e)
                continue
            fbody = fs[0]['body']
        sites = []
        for st in fbody:
            if st[0] != 'if':
                continue
            for cond, body in st[1]:
                g = mm.guard_facts(cond)
                if g['key'] or 'uint64' in repr(cond):
                    continue
                for b in body:
                    for cid, cargs, nout, targets in mm.wrapper_calls(b, 'mod_wrapper'):
                        sites.append((g, cid, cargs, nout, targets))
        if len(group) > 1:
            if len(sites) != total:
                add('C06|arities|%s|overload-set' % kind, 'overload set %s offers %d guarded branches %s, expected %d'
                    % (e['name'], len(sites), [g['count'] for g, _, _, _, _ in sites], total), e)
                continue
            sites = sites[first:first + k + 1]
        got_arities = [g['count'] for g, _, _, _, _ in sites]
        if got_arities != want_arities:
            add('C06|arities|%s|n%d-k%d' % (kind, n, k), 'arities offered %s, expected %s (full arity first)' % (got_arities, want_arities), e)
            continue
        for (g, cid, cargs, nout, targets), ar in zip(sites, want_arities):
            nchecked += 1
            # guard: class of every argument
            for i in range(ar):
                mode = e['modes'][i]
                want_cls = sc(MODES[mode][1])
                got_cls = g['isa'].get(i + 1)
                if '<' in MODES[mode][3]:
                    # std:: containers have no MATLAB class of their own; the generator names them differently in method
                    # guards (std.vectorint) and in constructor / function guards (std.vectornumeric): not compared
                    if got_cls is None or not got_cls.startswith('std.'):
                        add('C06|guard-class|%s|%s' % (kind, mode), 'arity %d: guard tests varargin{%d} as %r, expected a std.* class name' % (ar, i + 1, got_cls), e)
                    continue
                if got_cls != want_cls:
                    add('C06|guard-class|%s|%s' % (kind, mode),
                        'arity %d: guard tests varargin{%d} as %r, declared type needs %r' % (ar, i + 1, got_cls, want_cls), e)
            want_size = {(i + 1, dim): ext for i in range(ar) for dim, ext in SIZES.get(e['modes'][i], {}).items()}
            if g['size'] != want_size:
                add('C06|guard-shape|%s|%s' % (kind, '+'.join(sorted(set(e['modes']) & set(SIZES))) or 'none'),
                    'arity %d: guard tests the shapes %r, the declared types need %r ((argument, dimension): extent)'
                    % (ar, sorted(g['size'].items()), sorted(want_size.items())), e)
            extra_isa = [i for i in g['isa'] if i > ar]
            if extra_isa:
                add('C06|guard-extra|%s' % kind, 'arity %d: guard tests arguments %s beyond the count' % (ar, extra_isa), e)
            if g['other']:
                add('C06|guard-unrecognised|%s' % kind, 'arity %d: unrecognised guard conjunct %r' % (ar, g['other'][:1]), e)
            # call-site argument passing and outputs
            want_pass = ([('name', 'this')] if kind == 'method' else []) + \
                ([('cell', ('name', 'varargin'), [('colon',)])] if kind != 'ctor' else
                 [('cell', ('name', 'varargin'), [('num', str(j + 1))]) for j in range(ar)])
            if cargs != want_pass:
                add('C06|m-call-args|%s' % kind, 'arity %d: .m passes %r, expected %r' % (ar, cargs, want_pass), e)
            if kind != 'ctor':
                want_out = RETURNS[e['ret']][2]
                outs = [t for t in targets]
                ok = nout == want_out and all(t == ('cell', ('name', 'varargout'), [('num', str(j + 1))]) for j, t in enumerate(outs))
                if not ok:
                    add('C06|m-outputs|%s|%s' % (kind, e['ret']),
                        'arity %d: .m assigns %d output(s) %r, declared return %s needs %d' % (ar, nout, outs, e['ret'], want_out), e)
            # --- the routine
            rname = id2routine.get(cid)
            if rname is None or rname not in mex['routines']:
                add('C06|no-routine|%s' % kind, 'id %d has no routine' % cid, e)
                continue
            body = mex['routines'][rname][0]
            f = scan_routine(body)
            off = 1 if kind == 'method' else 0
            if kind != 'ctor':
                want_check = (ar, kind == 'method')
                if f['check'] is None or (f['check'][2], f['check'][1]) != want_check:
                    add('C06|checkArguments|%s' % kind, 'arity %d: routine %s has checkArguments %r, expected count %d%s'
                        % (ar, rname, f['check'], ar, ' with nargin-1' if kind == 'method' else ''), e)
            wantu = [dict(expected_unwrap(e['modes'][i], NAMES[i], i + off)) for i in range(ar)]
            for w_ in wantu:
                w_['targ'] = sc(w_['targ'])
            gotu = [{kk: u[kk] for kk in ('fn', 'targ', 'idx', 'name', 'deref')} for u in f['unwraps']]
            for u in f['unwraps']:
                # an object argument is read from the property ptr_<namespaces and name of its class> of the MATLAB object
                if u['fn'] in ('unwrap_shared_ptr', 'unwrap_ptr') and '<' not in u['targ'] and u.get('ptr') is not None \
                        and u['ptr'] != u['targ'].replace('::', ''):
                    add('C06|handle-property|%s' % kind, 'arity %d: parameter %s of type %s is read from property ptr_%s' % (ar, u['name'], u['targ'], u['ptr']), e)
            if len(gotu) != len(wantu):
                add('C06|unwrap-count|%s' % kind, 'arity %d: routine %s unwraps %d arguments: %r' % (ar, rname, len(gotu), gotu), e)
            else:
                for i, (w, gg) in enumerate(zip(wantu, gotu)):
                    if w != gg:
                        add('C06|unwrap|%s|%s' % (kind, e['modes'][i]),
                            'arity %d: parameter %d (%s) is unwrapped as %r, expected %r' % (ar, i, e['modes'][i], gg, w), e)
            # call: entity, arguments in order, omitted defaults verbatim
            if kind == 'method':
                pat = r'obj->%s' % re.escape(e['name'])
            elif kind == 'static':
                pat = r'(?<![\w:])%sHost::%s' % (re.escape(cpre), re.escape(e['name']))
            elif kind == 'function':
                pat = r'(?<![\w:>])%s%s' % (re.escape(cpre), re.escape(e['name']))
            else:
                pat = r'new %s%s' % (re.escape(cpre), re.escape(e['name']))
            fc = find_call(body, pat)
            if fc is None:
                add('C06|call-entity|%s' % kind, 'arity %d: routine %s does not call %s' % (ar, rname, pat.replace('\\', '')), e)
                continue
            callee, cargs2, before, after = fc
            want_args = []
            for i in range(n):
                if i < ar:
                    want_args.append(MODES[e['modes'][i]][4] + NAMES[i])
                else:
                    want_args.append(e['args'][i]['d'])
            if [gen.tight(x) for x in cargs2] != [gen.tight(x) for x in want_args]:
                add('C06|call-args|%s|%s|n%d-k%d' % (kind, '+'.join(sorted(set(e['modes']) - {'int'})) or 'int', n, k),
                    'arity %d: routine calls %s(%s), expected arguments (%s)' % (ar, callee, ', '.join(cargs2), ', '.join(want_args)), e)
            # result wrapping
            if kind != 'ctor':
                prob = check_return(e['ret'], body, callee, sc)
                if prob:
                    add('C06|return-wrap|%s|%s' % (kind, e['ret']), 'arity %d: %s' % (ar, prob), e)
    return {'viol': viol, 'n': nchecked}


def check_return(ret, body, callee, sc=lambda x: x):
    spec, wraps, nout = RETURNS[ret]
    wraps = [tuple(sc(x) for x in w) for w in wraps]
    outs = re.findall(r'out\[(\d+)\] = (\w+)(?:<\s*([^>]*?)\s*>)?\((.*)\);', body)
    if not wraps:
        if outs:
            return 'void return but the routine assigns outputs %r' % (outs,)
        return None
    if len(outs) != len(wraps):
        return 'declared return %s needs %d output(s), routine assigns %r' % (ret, len(wraps), [(o[0], o[1]) for o in outs])
    for j, (w, o) in enumerate(zip(wraps, outs)):
        idx, fn, targ, args = o
        if int(idx) != j:
            return 'output %d written to out[%s]' % (j, idx)
        src = 'pairResult.%s' % ('first' if j == 0 else 'second') if len(wraps) == 2 else callee
        if w[0] == 'wrap':
            if fn != 'wrap' or gen.tight(targ) != w[1] or src not in args:
                return 'output %d should be wrap< %s >(%s...), found %s<%s>(%s)' % (j, w[1], src, fn, targ, args[:60])
        elif w[0] == 'wrap_shared_ptr':
            if fn != 'wrap_shared_ptr' or 'make_shared' in args or ('"%s"' % w[1]) not in args or src not in args:
                return 'output %d should be wrap_shared_ptr(%s..., "%s"), found %s(%s)' % (j, src, w[1], fn, args[:80])
        elif w[0] == 'wrap_shared_ptr_make':
            if fn != 'wrap_shared_ptr' or ('std::make_shared<%s>' % w[1]) not in gen.tight(args) or ('"%s"' % w[2]) not in args or src not in args:
                return 'output %d should be wrap_shared_ptr(std::make_shared<%s>(%s...), "%s"), found %s(%s)' % (j, w[1], src, w[2], fn, args[:80])
        elif w[0] == 'wrap_enum':
            if fn != 'wrap_enum' or ('"%s"' % w[1]) not in args:
                return 'output %d should be wrap_enum(..., "%s"), found %s(%s)' % (j, w[1], fn, args[:80])
    return None


def sigkey(e):
    return '%s|n%d-k%d|%s' % ('+'.join(sorted(set(e['modes']) - {'int'})) or 'int', len(e['modes']), e['k'], e['ret'])


def describe(e):
    return 'callable %s %s: modes=%s trailing defaults=%d return=%s' % (e['kind'], e['name'], e['modes'], e['k'], e['ret'])


def excerpt(text, e):
    if not e:
        return text[:500]
    return '\n'.join(l for l in text.split('\n') if re.search(r'\b%s\b' % re.escape(e['name']), l))[:600]


def replay(case):
    return check_unit(case)['viol']


def run(ctx):
    sigs = signatures(True) if ctx.thorough else signatures(False) + [x for x in signatures(True) if len(x[0]) == 2 and len(set(x[0]) - {'int'}) == 2]
    items = [{'modes': ms, 'k': k, 'ret': 'int'} for ms, k in sigs]
    for r in RETURNS:
        if r != 'int':
            items.append({'modes': ['int', 'double'], 'k': 1, 'ret': r})
            items.append({'modes': [], 'k': 0, 'ret': r})
    cases = []
    per = 24
    for kind in KINDS:
        its = items if kind != 'ctor' else [it for it in items if it['ret'] == 'int']
        if kind == 'function':
            # a free function has no class: the class-scoped enum is spelled out and belongs to another class
            pass
        for i in range(0, len(its), per):
            cases.append({'kind': kind, 'items': its[i:i + per], 'scope': 'gt'})
        # the same family at global scope and two namespaces deep (every 3rd signature in the quick tier)
        sub = its if ctx.thorough else its[::3] + [it for it in its if it['ret'] != 'int']
        for scope in ('', 'gt::inner'):
            for i in range(0, len(sub), per):
                cases.append({'kind': kind, 'items': sub[i:i + per], 'scope': scope})
    # overload sets whose members differ in arity, parameter types and return shape, in every rotation
    ovl = [(['int'], 0, 'void'), (['int', 'int'], 0, 'double'), (['Vector'], 0, 'pair-int-double'), (['double', 'string'], 1, 'obj'),
           (['obj-cref', 'Point2', 'int'], 2, 'Vector')]
    for kind in KINDS:
        for scope in ('gt', ''):
            for rot in range(len(ovl)):
                grp = ovl[rot:] + ovl[:rot]
                nm = {'method': 'ov', 'static': 'Ov', 'function': 'ovf', 'ctor': 'Ovc'}[kind]
                its = [{'modes': ms, 'k': k, 'ret': r if kind != 'ctor' else 'int', 'name': nm} for ms, k, r in grp]
                # a differently named callable before and after the set
                cases.append({'kind': kind, 'scope': scope, 'items': [{'modes': ['int'], 'k': 0, 'ret': 'int'}] + its +
                              [{'modes': ['double'], 'k': 1, 'ret': 'string'}]})
    # the enum and the argument class declared after their users
    uses = [it for it in items if (set(it['modes']) & {'ns-enum', 'class-enum', 'obj-value', 'obj-cref', 'obj-shared', 'obj-raw'} and len(it['modes']) <= 2)
            or it['ret'] in ('ns-enum', 'obj', 'shared', 'pair-obj-shared', 'obj-voidname')]
    for kind in KINDS:
        its = uses if kind != 'ctor' else [it for it in uses if it['ret'] == 'int']
        for scope in ('gt', ''):
            for i in range(0, len(its), per):
                cases.append({'kind': kind, 'items': its[i:i + per], 'scope': scope, 'layout': 'support-last'})
    for kind in KINDS:
        its = uses if kind != 'ctor' else [it for it in uses if it['ret'] == 'int']
        for i in range(0, len(its), per):
            cases.append({'kind': kind, 'items': its[i:i + per], 'scope': 'gt', 'layout': 'reopened-ns'})
            cases.append({'kind': kind, 'items': its[i:i + per], 'scope': 'gt', 'layout': 'global-names-like-classes'})
            cases.append({'kind': kind, 'items': its[i:i + per], 'scope': 'gt', 'layout': 'same-names-in-an-earlier-namespace'})
    res = ctx.map(check_unit, cases, chunksize=1)
    ncall = sum(len(c['items']) for c in cases)
    return {
        'evaluations': sum(r.get('n', 0) for _, r in res),
        'distinct_nontrivial': ncall,
        'rule': 'signatures = arity 0..%d x every trailing default count x one deviating parameter over 23 passing modes%s, '
                'plus 19 return shapes, overload sets of 5 members in every rotation, and the enum / argument class declared after their users; each as method / static / function / constructor; evaluations = (callable, arity) '
                'pairs fully checked on both sides, distinct_nontrivial = distinct callables; scopes: namespace gt (all), global and gt::inner (%s)'
                % ((5, ' + two deviating parameters for n = 2, 3', 'all') if ctx.thorough else (4, ' + two deviating parameters for n = 2', 'every 3rd signature')),
        'samples': [D.render(build_module('method', items[40:44], 'gt')[0])],
        'exhaustive': True,
    }
