"""C17 — embedded docstrings are the right text, correctly escaped, and change nothing else (exploration).

Doxygen XML trees are written by our own emitter from a doc-spec.  Enumerated completely:
  texts    : every string of length <= 2 (3) over one representative per escaping class of Python repr x C++
             literals (letters incl. hex digits, digit, both quotes, backslash, newline, tab, %, braces, ?, DEL,
             U+0085, U+00AD, e-acute, CJK, U+2028, emoji), each as the documentation of its own method;
  matching : overload sets (different / same parameter names, optional parameters with defval), docs present /
             brief only / absent, class present / absent in index.xml, class file missing / ill-formed, no index.
Oracle: (a) the literal after each .def carries the marker of the member with the same class, name and parameter
list and no other; (b) an independent C++ string-literal decoder -- and g++ itself -- decode the literal to exactly
the extracted text; (c) missing docs / class / XML give an empty docstring, never an error; (d) the output with XML,
literals removed, equals the output without XML; (e) wrapping twice with one wrapper gives the same docstrings.
"""
import itertools
import os
import re
import shutil
import subprocess
from xml.sax.saxutils import escape

from vf import dialect as D
from vf import gen
from vf.dialect import T, arg, single

ID = 'C17'
LEVEL = 'exploration'
ASSUMPTIONS = [
    'C++ narrow string literals are decoded with UTF-8 execution character set (g++ default); the independent decoder implements [lex.ccon]/[lex.string] escapes incl. greedy \\x and \\u/\\U universal character names',
    'characters that XML 1.0 cannot carry (C0 controls other than tab/newline/CR) are not in the text alphabet',
]

CHARS = ['g', 'a', 'F', '7', '"', "'", '\\', '\n', '\t', '%', '{', '}', '?', '\x7f', '\x85', '\xad', 'é', '中', ' ', '😀']


# ------------------------------------------------------------------ Doxygen XML emitter
def xml_attr(s):
    return escape(s, {'"': '&quot;'})


def xtext(s):
    out = []
    for ch in s:
        o = ord(ch)
        if ch in '<>&':
            out.append(escape(ch))
        elif o < 0x20 and ch not in '\t\n\r' or o in (0x7f, 0x85, 0x2028):
            out.append('&#%d;' % o)
        else:
            out.append(ch)
    return ''.join(out)


def member_xml(m):
    """m: {'name', 'params': [(type, name, defval|None)], 'brief': str|None, 'detail': str|None, 'pdocs': {name: desc}, 'ret': str|None}"""
    ps = ''
    for t, n, dv in m['params']:
        ps += '<param><type>%s</type><declname>%s</declname>%s</param>' % (xtext(t), n, '<defval>%s</defval>' % xtext(dv) if dv is not None else '')
    argsstring = '(' + ', '.join('%s %s' % (t, n) for t, n, _ in m['params']) + ')'
    brief = '<briefdescription>%s</briefdescription>' % ('<para>%s</para>' % xtext(m['brief']) if m.get('brief') is not None else '')
    det = ''
    if m.get('detail') is not None:
        det += '<para>%s</para>' % xtext(m['detail'])
    if m.get('pdocs') or m.get('ret'):
        inner = ''
        if m.get('pdocs'):
            inner += '<parameterlist kind="param">'
            for n, dsc in m['pdocs'].items():
                inner += '<parameteritem><parameternamelist><parametername>%s</parametername></parameternamelist>' \
                         '<parameterdescription><para>%s</para></parameterdescription></parameteritem>' % (n, xtext(dsc))
            inner += '</parameterlist>'
        if m.get('ret'):
            inner += '<simplesect kind="return"><para>%s</para></simplesect>' % xtext(m['ret'])
        det += '<para>%s</para>' % inner
    detailed = '<detaileddescription>%s</detaileddescription>' % det if (m.get('detail') is not None or m.get('pdocs') or m.get('ret')) else ''
    tpl = ''
    if m.get('tparams'):
        # a C++ member template: Doxygen lists its template parameters as <param> elements of a <templateparamlist>
        tpl = '<templateparamlist>%s</templateparamlist>' % ''.join('<param><type>class</type><declname>%s</declname></param>' % t for t in m['tparams'])
    return '<memberdef kind="function" id="x">%s<type>int</type><definition>int %s</definition><argsstring>%s</argsstring>' \
           '<name>%s</name>%s%s%s</memberdef>' % (tpl, m['name'], xtext(argsstring), m['name'], ps, brief, detailed)


def write_xml(folder, classes, index=True, broken=(), missing_file=(), structs=(), latin1=(), damaged=()):
    """classes: {cpp name: [members]}; names in `structs` are emitted as Doxygen does for a C++ struct"""
    os.makedirs(folder, exist_ok=True)
    idx = '<?xml version="1.0" encoding="UTF-8"?>\n<doxygenindex>'
    for cpp, members in classes.items():
        ckind = 'struct' if cpp in structs else 'class'
        refid = ckind + cpp.replace('::', '_1_1')
        idx += '<compound refid="%s" kind="%s"><name>%s</name></compound>' % (refid, ckind, cpp)
        if cpp in missing_file:
            continue
        # members may name their section (a Doxygen @name group is a sectiondef of kind "user-defined")
        sects = []
        for m in members:
            k = m.get('sect', 'public-func')
            if k not in [x[0] for x in sects]:
                sects.append((k, []))
            [x for x in sects if x[0] == k][0][1].append(m)
        body = '<?xml version="1.0" encoding="UTF-8"?>\n<doxygen><compounddef id="%s" kind="%s"><compoundname>%s</compoundname>%s</compounddef></doxygen>' \
               % (refid, ckind, cpp, ''.join('<sectiondef kind="%s">%s</sectiondef>' % (k, ''.join(member_xml(m) for m in ms)) for k, ms in sects) or
                  '<sectiondef kind="public-func"></sectiondef>')
        if cpp in broken:
            body = body[:len(body) // 2]
        if cpp in latin1:
            # a legal non-UTF-8 file: the encoding is declared in the XML declaration
            with open(os.path.join(folder, refid + '.xml'), 'wb') as f:
                f.write(body.replace('encoding="UTF-8"', 'encoding="ISO-8859-1"').encode('latin-1'))
            continue
        if cpp in damaged:
            with open(os.path.join(folder, refid + '.xml'), 'wb') as f:
                b = body.encode('utf-8')
                f.write(b[:len(b) // 2] + b'\xff' + b[len(b) // 2:])
            continue
        with open(os.path.join(folder, refid + '.xml'), 'w', encoding='utf-8') as f:
            f.write(body)
    idx += '</doxygenindex>'
    if index:
        with open(os.path.join(folder, 'index.xml'), 'w', encoding='utf-8') as f:
            f.write(idx)


# ------------------------------------------------------------------ independent C++ literal decoder
def decode_cpp_literal(lit):
    """Bytes that a C++ compiler (UTF-8 execution charset) gives for the narrow string literal body `lit`."""
    out = bytearray()
    i, n = 0, len(lit)
    simple = {'n': 10, 't': 9, 'r': 13, 'a': 7, 'b': 8, 'f': 12, 'v': 11, '\\': 92, "'": 39, '"': 34, '?': 63}
    while i < n:
        ch = lit[i]
        if ch != '\\':
            if ch == '"':
                raise ValueError('unescaped double quote ends the literal at %d' % i)
            if ch == '\n':
                raise ValueError('raw newline inside a string literal at %d' % i)
            out += ch.encode('utf-8')
            i += 1
            continue
        i += 1
        if i >= n:
            raise ValueError('dangling backslash')
        e = lit[i]
        if e in simple:
            out.append(simple[e])
            i += 1
        elif e in '01234567':
            j = i
            while j < n and j < i + 3 and lit[j] in '01234567':
                j += 1
            v = int(lit[i:j], 8)
            if v > 255:
                raise ValueError('octal escape out of range')
            out.append(v)
            i = j
        elif e == 'x':
            j = i + 1
            while j < n and lit[j] in '0123456789abcdefABCDEF':
                j += 1
            if j == i + 1:
                raise ValueError('\\x without digits')
            v = int(lit[i + 1:j], 16)
            if v > 255:
                raise ValueError('hex escape sequence out of range: \\x%s' % lit[i + 1:j])
            out.append(v)
            i = j
        elif e in 'uU':
            k = 4 if e == 'u' else 8
            h = lit[i + 1:i + 1 + k]
            if len(h) != k or any(c not in '0123456789abcdefABCDEF' for c in h):
                raise ValueError('bad universal character name')
            out += chr(int(h, 16)).encode('utf-8')
            i += 1 + k
        else:
            raise ValueError('unknown escape \\%s' % e)
    return bytes(out)


def def_literals(out):
    """[(class cpp, py name, [arg names], literal body or None)] for every .def with a lambda in the wrapped text."""
    res = []
    sec = gen.pybind_sections(out)
    for r in gen.scan_pybind(sec['WRAPPED']):
        if r['k'] != 'class':
            continue
        for m in r['members']:
            if m.get('kind') in ('method', 'static'):
                lit = None
                for x in m.get('extra', []):
                    mm = re.match(r'^"((?:[^"\\]|\\.)*)"$', x.strip(), re.S)
                    if mm:
                        lit = mm.group(1)
                    else:
                        lit = ('UNPARSED', x)
                res.append((r['cpp'], m['py'], [a[0] for a in m['pyargs']], lit))
    return res


def strip_literals(out):
    """The output with the docstring literal of every method/static binding removed (found by the scanner, then cut
    out textually in order of appearance)."""
    pos = 0
    res = []
    for cpp, py, names, lit in def_literals(out):
        if not isinstance(lit, str):
            continue
        needle = ', "%s")' % lit
        i = out.find(needle, pos)
        if i < 0:
            continue
        res.append(out[pos:i] + ')')
        pos = i + len(needle)
    res.append(out[pos:])
    return ''.join(res)


# ------------------------------------------------------------------ cases
def texts(maxlen):
    out = ['']
    for L in range(1, maxlen + 1):
        for t in itertools.product(CHARS, repeat=L):
            out.append(''.join(t))
    return out


LONG_TEXTS = ['a' + '"' * 1500, 'ab' + 'é' * 700, 'abc' + '\n' * 1500 + 'z', 'x' * 2047 + '"' + 'y' * 2047 + '\\' + 'z',
              'x' * 2046 + '\\' * 3 + 'w' * 3000, '%' * 2500, 'q' + '\t\x7f' * 1200, 'é' * 1025 + '"']


def check_texts(case):
    """One class, one documented method per text."""
    tx = case['texts']
    wd = gen.mkdtemp('c17')
    viol = []
    try:
        members_spec, members_xml = [], []
        for i, t in enumerate(tx):
            name = 'm%d' % i
            members_spec.append(D.method(single(T('int')), name, [arg(T('int'), 'a')]))
            members_xml.append({'name': name, 'params': [('int', 'a', None)], 'brief': 'M%dB%sE' % (i, t), 'detail': None})
        mod = [D.ns('gt', [D.cls('Foo', members_spec)])]
        text = D.render(mod)
        xml = os.path.join(wd, 'xml')
        write_xml(xml, {'gt::Foo': members_xml})
        try:
            out = gen.pybind(text, xml_source=xml)
        except Exception as e:
            return {'viol': [{'sig': 'C17|texts|exception|%s' % type(e).__name__, 'msg': '%s: %s' % (type(e).__name__, str(e)[:300])}]}
        from gtwrap.xml_parser.xml_parser import XMLDocParser
        lits = def_literals(out)
        bym = {py: lit for _, py, _, lit in lits}
        cpp_items = []
        for i, t in enumerate(tx):
            try:
                want = XMLDocParser().extract_docstring(xml, 'gt::Foo', 'm%d' % i, ['a'])
            except Exception as e:
                viol.append({'sig': 'C17|texts|extract-raises|%s' % type(e).__name__,
                             'msg': 'a fresh XMLDocParser raised %s: %s (state shared between parser objects?)' % (type(e).__name__, e)})
                continue
            lit = bym.get('m%d' % i)
            cls = '+'.join(sorted({charclass(c) for c in t})) or 'empty'
            if lit is None or isinstance(lit, tuple):
                viol.append({'sig': 'C17|texts|literal-not-found|%s' % cls, 'msg': 'no well-formed docstring literal for text %r: %r' % (t, lit)})
                continue
            if ('M%dB' % i) not in want:
                viol.append({'sig': 'C17|texts|extraction|%s' % cls, 'msg': 'extract_docstring lost the documentation of m%d: %r' % (i, want)})
            try:
                got = decode_cpp_literal(lit)
            except ValueError as e:
                viol.append({'sig': 'C17|texts|literal-ill-formed|%s' % cls,
                             'msg': 'the literal "%s" for text %r is not a well-formed C++ string literal: %s' % (lit, t, e)})
                continue
            if got != want.encode('utf-8'):
                viol.append({'sig': 'C17|texts|literal-decodes-differently|%s' % cls,
                             'msg': 'text %r: extracted docstring %r, literal "%s" decodes to %r' % (t, want, lit, got)})
            cpp_items.append((i, lit, want.encode('utf-8')))
        # g++ as the second decoder
        if case.get('compile') and cpp_items:
            src = os.path.join(wd, 'lits.cpp')
            with open(src, 'w', encoding='utf-8') as f:
                f.write('#include <cstdio>\n#include <cstring>\nstruct L { int id; const char* s; unsigned long n; };\n')
                f.write('#define LIT(i, s) { i, s, sizeof(s) - 1 }\nstatic const L lits[] = {\n')
                for i, lit, _ in cpp_items:
                    f.write('LIT(%d, "%s"),\n' % (i, lit))
                f.write('};\nint main() { for (const L& l : lits) { std::printf("%d ", l.id); for (unsigned long k = 0; k < l.n; ++k) '
                        'std::printf("%02x", (unsigned char)l.s[k]); std::printf("\\n"); } return 0; }\n')
            exe = os.path.join(wd, 'lits')
            r = subprocess.run(['g++', '-std=c++17', '-w', src, '-o', exe], capture_output=True, text=True)
            if r.returncode != 0:
                bad = sorted({int(x) for x in re.findall(r'lits\.cpp:(\d+):', r.stderr)})
                for ln in bad[:20]:
                    idx = ln - 6
                    if 0 <= idx < len(cpp_items):
                        i, lit, _ = cpp_items[idx]
                        cls = '+'.join(sorted({charclass(c) for c in tx[i]})) or 'empty'
                        viol.append({'sig': 'C17|texts|gxx-rejects-literal|%s' % cls,
                                     'msg': 'g++ rejects the literal "%s" generated for text %r' % (lit, tx[i])})
            else:
                r2 = subprocess.run([exe], capture_output=True, text=True)
                want = {i: w for i, _, w in cpp_items}
                for line in r2.stdout.split('\n'):
                    if not line.strip():
                        continue
                    a, _, h = line.partition(' ')
                    i = int(a)
                    if bytes.fromhex(h.strip()) != want[i]:
                        cls = '+'.join(sorted({charclass(c) for c in tx[i]})) or 'empty'
                        viol.append({'sig': 'C17|texts|gxx-decodes-differently|%s' % cls,
                                     'msg': 'text %r: g++ decodes the literal to %s, extracted text is %r' % (tx[i], h, want[i])})
        # (d) nothing else changes
        plain = gen.pybind(text)
        if strip_literals(out) != plain:
            viol.append({'sig': 'C17|texts|output-differs-beyond-literals',
                         'msg': 'output with XML minus docstring literals differs from output without XML'})
    finally:
        shutil.rmtree(wd, ignore_errors=True)
    return {'viol': viol, 'n': len(tx)}


def charclass(c):
    names = {'"': 'dquote', "'": 'squote', '\\': 'backslash', '\n': 'newline', '\t': 'tab', '%': 'percent', '{': 'brace', '}': 'brace',
             '?': 'question', '\x7f': 'DEL', '\x85': 'U+0085', '\xad': 'U+00AD', 'é': 'latin1-letter', '中': 'cjk', ' ': 'U+2028',
             '😀': 'emoji', 'a': 'hexletter', 'F': 'hexletter', '7': 'digit', 'g': 'letter'}
    return names.get(c, 'other')


def check_matching(case):
    """Overload matching, optional parameters, missing pieces."""
    wd = gen.mkdtemp('c17m')
    viol = []
    I = T('int')
    try:
        def doc(mark, **kw):
            d = {'brief': 'BRIEF-%s' % mark, 'detail': 'DETAIL-%s' % mark, 'pdocs': kw.get('pdocs'), 'ret': 'RET-%s' % mark}
            return d
        methods = [
            ('plain', [('int', 'a', None)], 'full'),
            ('ov', [('int', 'a', None)], 'full'),                      # overloads with different parameter names
            ('ov', [('double', 'x', None), ('int', 'y', None)], 'full'),
            ('ov', [], 'full'),
            ('same', [('int', 'v', None)], 'full'),                    # overloads with the same parameter names: by order
            ('same', [('double', 'v', None)], 'full'),
            ('same', [('string', 'v', None)], 'full'),
            ('opt', [('int', 'a', None), ('int', 'b', '2'), ('int', 'c', '3')], 'full'),   # optional parameters
            ('optreq', [('int', 'a', None), ('double', 'tol', '1e-9'), ('string', 'name', '"x"')], 'full-required-only'),
            ('lambda', [('int', 'a', None)], 'full'),                  # Python name differs from the C++ name (lambda_)
            ('html', [('int', 'a', None)], 'full'),
            ('swap', [('int', 'key', None), ('int', 'value', None)], 'full'),      # same names, other positions
            ('swap', [('int', 'value', None), ('int', 'key', None)], 'full'),
            ('addw', [('double', 'weight', None), ('string', 'label', '""')], 'full'),
            ('addw', [('string', 'label', None)], 'full'),
            ('solve', [('double', 'x', None), ('int', 'max_iterations', '10'), ('double', 'relax', '0.5')], 'full-required-only'),
            ('tput', [('double', 'value', None)], 'full'),             # documented as a C++ member template
            ('alta', [('int', 'f', None)], 'full'),                    # two overload sets told apart by order only, declared alternately
            ('altb', [('int', 'o', None)], 'full'),
            ('alta', [('double', 'f', None)], 'full'),
            ('altb', [('double', 'o', None)], 'full'),
            ('briefonly', [('int', 'a', None)], 'brief'),
            ('nodoc', [('int', 'a', None)], 'none'),
            ('notinxml', [('int', 'a', None)], 'absent'),
            ('stat', [('int', 'a', None)], 'full'),
        ]
        members, xmlm = [], []
        expect = []   # (py name, arg names, marker or None)
        for i, (name, params, kind) in enumerate(methods):
            mark = 'K%dK' % i
            xml_params = params
            if kind == 'full-required-only':
                # the interface declares only the required parameters of a C++ member that has optional ones
                params = [p for p in params if p[2] is None]
                kind = 'full'
            args = [arg(T(t), n, dv) for t, n, dv in params]
            if name == 'stat':
                members.append(D.static(single(I), name, args))
            else:
                members.append(D.method(single(I), name, args))
            if kind != 'absent':
                m = {'name': name, 'params': xml_params}
                if name == 'tput':
                    m['tparams'] = ['T']
                if (name, len(params)) == ('ov', 0) or name == 'swap' and params[0][1] == 'value':
                    m['sect'] = 'user-defined'      # overloads told apart by their parameter names, in another section
                if kind == 'full':
                    m.update(doc(mark, pdocs={n: 'PD-%s-%s' % (mark, n) for _, n, _ in xml_params}))
                elif kind == 'brief':
                    m.update({'brief': 'BRIEF-%s' % mark})
                xmlm.append(m)
            pyname = {'lambda': 'lambda_', 'html': '_repr_html_'}.get(name, name)    # Python-side names of the bindings
            expect.append((pyname, [n for _, n, _ in params], mark if kind in ('full', 'brief') else None))
        # an overload set in which one C++ member has optional parameters and another has exactly the arity in between
        members += [D.method(single(I), 'rng', [arg(I, 'rows'), arg(I, 'cols')]), D.method(single(I), 'rng', [arg(I, 'rows')]),
                    D.method(single(I), 'rng', [arg(I, 'rows'), arg(I, 'cols'), arg(I, 'depth')])]
        pa = [('int', 'rows', None), ('int', 'cols', '1'), ('int', 'depth', '1')]
        pb = [('int', 'rows', None), ('int', 'cols', None)]
        xmlm += [dict({'name': 'rng', 'params': pa}, **doc('K90K', pdocs={n: 'PD-K90K-%s' % n for _, n, _ in pa})),
                 dict({'name': 'rng', 'params': pb}, **doc('K91K', pdocs={n: 'PD-K91K-%s' % n for _, n, _ in pb}))]
        # (methods are bound before static methods)
        expect[-1:-1] = [('rng', ['rows', 'cols'], 'K91K'), ('rng', ['rows'], 'K90K'), ('rng', ['rows', 'cols', 'depth'], 'K90K')]
        # a second documented type, which Doxygen lists as a struct, with overloads spelled like those of Foo
        smembers = [D.method(single(I), 'plain', [arg(I, 'a')]), D.method(single(I), 'same', [arg(I, 'v')]),
                    D.method(single(I), 'same', [arg(T('double'), 'v')])]
        sxml = [dict({'name': 'plain', 'params': [('int', 'a', None)]}, **doc('K80K')),
                dict({'name': 'same', 'params': [('int', 'v', None)]}, **doc('K81K')),
                dict({'name': 'same', 'params': [('double', 'v', None)]}, **doc('K82K'))]
        sexpect = [('plain', ['a'], 'K80K'), ('same', ['v'], 'K81K'), ('same', ['v'], 'K82K')]
        lat = [D.method(single(I), 'plain', [arg(I, 'a')])]
        mod = [D.ns('gt', [D.cls('Foo', members), D.cls('Sfoo', smembers), D.cls('Latin', lat), D.cls('Damaged', lat), D.cls('NotIndexed', [D.method(single(I), 'plain', [arg(I, 'a')])]),
                           D.cls('NoFile', [D.method(single(I), 'plain', [arg(I, 'a')])]),
                           D.cls('Broken', [D.method(single(I), 'plain', [arg(I, 'a')])])])]
        text = D.render(mod)
        xml = os.path.join(wd, 'xml')
        write_xml(xml, {'outer::gt::NotIndexed': [dict({'name': 'plain', 'params': [('int', 'a', None)]}, **doc('K70K'))],
                        'gt::Foo': xmlm, 'gt::Sfoo': sxml, 'gt::NoFile': [],
                        'gt::Latin': [dict({'name': 'plain', 'params': [('int', 'a', None)]}, **doc('K60K caf\xe9'))],
                        'gt::Damaged': [dict({'name': 'plain', 'params': [('int', 'a', None)]}, **doc('K61K'))], 'gt::Broken': [{'name': 'plain', 'params': [('int', 'a', None)], 'brief': 'BRIEF-X'}]},
                  broken=('gt::Broken',), missing_file=('gt::NoFile',), structs=('gt::Sfoo',), latin1=('gt::Latin',), damaged=('gt::Damaged',))
        variants = {'full': xml}
        noidx = os.path.join(wd, 'noindex')
        write_xml(noidx, {'gt::Foo': xmlm}, index=False)
        variants['no-index'] = noidx
        variants['no-folder'] = os.path.join(wd, 'does-not-exist')
        import io
        import contextlib
        for vname, folder in variants.items():
            sink = io.StringIO()
            try:
                with contextlib.redirect_stdout(sink):
                    out = gen.pybind(text, xml_source=folder)
            except Exception as e:
                viol.append({'sig': 'C17|matching|exception|%s|%s' % (vname, type(e).__name__),
                             'msg': 'wrapping with xml_source=%s raised %s: %s' % (vname, type(e).__name__, str(e)[:300])})
                continue
            lits = def_literals(out)
            foo = [(py, names, lit) for cpp, py, names, lit in lits if cpp == 'gt::Foo']
            if [(p, n) for p, n, _ in foo] != [(p, n) for p, n, _ in expect]:
                viol.append({'sig': 'C17|matching|bindings-changed|%s' % vname, 'msg': 'bindings %r' % foo})
                continue
            for (py, names, lit), (_, _, mark) in zip(foo, expect):
                allmarks = re.findall(r'K\d+K', lit if isinstance(lit, str) else '')
                want = mark if vname == 'full' else None
                if want is None:
                    if lit not in ('', None):
                        viol.append({'sig': 'C17|matching|docstring-where-none-expected|%s|%s' % (vname, py),
                                     'msg': '%s(%s) should have an empty docstring, has "%s"' % (py, names, lit)})
                else:
                    if set(allmarks) != {want}:
                        viol.append({'sig': 'C17|matching|wrong-member-doc|%s' % py,
                                     'msg': '%s(%s) should carry the documentation %s, literal is "%s"' % (py, names, want, lit)})
                    elif 'PD-' in lit or True:
                        pd = re.findall(r'PD-K\d+K-(\w+)', lit)
                        full_doc = ('DETAIL-' + want) in lit
                        if full_doc and sorted(pd) != sorted(names):
                            viol.append({'sig': 'C17|matching|parameter-docs|%s' % py,
                                         'msg': '%s(%s): the docstring describes the parameters %s, the binding has %s; literal "%s"' % (py, names, pd, names, lit)})
            sfoo = [(py, names, lit) for cpp, py, names, lit in lits if cpp == 'gt::Sfoo']
            if vname == 'full':
                if [(p, n) for p, n, _ in sfoo] != [(p, n) for p, n, _ in sexpect]:
                    viol.append({'sig': 'C17|matching|bindings-changed|struct', 'msg': 'bindings %r' % sfoo})
                for (py, names, lit), (_, _, mark) in zip(sfoo, sexpect):
                    if set(re.findall(r'K\d+K', lit if isinstance(lit, str) else '')) != {mark}:
                        viol.append({'sig': 'C17|matching|wrong-member-doc|struct-%s' % py,
                                     'msg': 'gt::Sfoo (a Doxygen struct compound) %s(%s) should carry the documentation %s, literal is "%s"' % (py, names, mark, lit)})
            if vname == 'full':
                latlit = [lit for cpp, py, names, lit in lits if cpp == 'gt::Latin']
                if len(latlit) != 1 or not isinstance(latlit[0], str) or 'K60K' not in latlit[0]:
                    viol.append({'sig': 'C17|matching|wrong-member-doc|latin1-encoded-xml',
                                 'msg': 'gt::Latin.plain (its XML file is ISO-8859-1, as declared in the file) should carry K60K, literal is %r' % (latlit,)})
            for cpp, py, names, lit in lits:
                if cpp not in ('gt::Foo', 'gt::Sfoo' if vname == 'full' else 'gt::Foo', 'gt::Latin' if vname == 'full' else 'gt::Foo') and lit not in ('', None):
                    viol.append({'sig': 'C17|matching|docstring-for-undocumented-class|%s' % cpp, 'msg': '%s.%s has "%s"' % (cpp, py, lit)})
            if strip_literals(out) != gen.pybind(text):
                viol.append({'sig': 'C17|matching|output-differs-beyond-literals|%s' % vname, 'msg': 'output changed beyond the literals'})
        # (e') a second, brand-new wrapper in the same process
        try:
            again = gen.pybind(text, xml_source=xml)
            ref_first = gen.pybind(text, wrapper=None, xml_source=xml) if False else None
            lits2 = [(py, lit) for cpp, py, names, lit in def_literals(again) if cpp == 'gt::Foo']
            for (py, lit), (_, _, mark) in zip(lits2, expect):
                marks = set(re.findall(r'K\d+K', lit if isinstance(lit, str) else ''))
                if mark is not None and marks != {mark}:
                    viol.append({'sig': 'C17|matching|second-wrapper-in-process-differs|%s' % py,
                                 'msg': 'a new wrapper created later in the same process gives %s the docstring "%s" (expected %s)' % (py, lit, mark)})
        except Exception as e:
            viol.append({'sig': 'C17|matching|second-wrapper-in-process-raises|%s' % type(e).__name__,
                         'msg': 'a new wrapper created later in the same process raised %s: %s' % (type(e).__name__, e)})
        # (e) one wrapper used twice
        from gtwrap.pybind_wrapper import PybindWrapper
        w = PybindWrapper(module_name='mod', top_module_namespaces=[''], ignore_classes=[''], module_template=gen.PY_TEMPLATE, xml_source=xml)
        try:
            first = gen.pybind(text, wrapper=w)
        except Exception as e:
            first = None
            viol.append({'sig': 'C17|matching|later-wrapper-in-process-raises|%s' % type(e).__name__,
                         'msg': 'a wrapper created after other wrappers in the same process raised %s: %s' % (type(e).__name__, e)})
        try:
            second = gen.pybind(text, wrapper=w) if first is not None else None
            if first != second:
                viol.append({'sig': 'C17|matching|second-wrap-differs', 'msg': 'wrapping the same text twice with one wrapper object gives different docstrings: %r vs %r'
                             % ([l for _, p, _, l in def_literals(first) if p == 'same'], [l for _, p, _, l in def_literals(second) if p == 'same'])})
        except Exception as e:
            viol.append({'sig': 'C17|matching|second-wrap-raises|%s' % type(e).__name__, 'msg': 'second wrap with the same wrapper raised %s: %s' % (type(e).__name__, e)})
    finally:
        shutil.rmtree(wd, ignore_errors=True)
    return {'viol': viol, 'n': len(methods)}


def replay(case):
    return (check_matching if case.get('mode') == 'matching' else check_texts)(case)['viol']


def run(ctx):
    tx = texts(3 if ctx.thorough else 2) + LONG_TEXTS
    per = 60
    cases = [{'mode': 'texts', 'texts': tx[i:i + per], 'compile': True} for i in range(0, len(tx), per)]
    res = ctx.map(check_texts, cases, chunksize=1)
    res2 = ctx.map(check_matching, [{'mode': 'matching'}], chunksize=1)
    return {
        'evaluations': len(tx) + 37 * 3 + 1,
        'distinct_nontrivial': len(tx) + 37,
        'rule': 'every documentation text of length <= %d over %d escaping-class representatives (each the docstring of its own '
                'method; literal decoded by an independent decoder and by g++); 37 member shapes (a documented member template, alternating overload sets, members spread over two sections, Python names that differ from the C++ names, overloads by names / by order, '
                'optional parameters with an overload of the arity in between, a struct compound with same-spelled overloads, brief only, undocumented, absent) x 3 XML trees (complete, no index, no folder) plus class '
                'not indexed / class file missing / ill-formed; one wrapper used twice' % (3 if ctx.thorough else 2, len(CHARS)),
        'samples': [repr(t) for t in (tx[5], tx[100], tx[-1])],
        'exhaustive': True,
    }
