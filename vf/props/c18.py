"""C18 — the MATLAB runtime header converts values without loss (exhaustive values + handle-protocol model checking).

A C++ driver (vf/cxxsrc/c18_driver.cpp) is compiled with ASan/UBSan against the REAL /repo/matlab.h on top of a mock
MEX API (vf/cxxsrc/mex.h, mockmex.cpp) and minimal Vector/Matrix/Point stand-ins.  It enumerates completely:
  values  : bool {0,1}; char and unsigned char all 256; int all of [-65536, 65536] and the boundaries; size_t and
            double boundary sets (bit comparison, incl. NaN, -0, denormals, 2^53+1, 2^64-1); every string of
            length <= 3 (4) over {a, space, newline, quote, 0xFF, NUL}; Vector lengths 0..4, Matrix shapes 0..3 x 0..3
            with pairwise distinct entries (shape and column-major position checked); Point2/Point3; enums;
  errors  : every scalar unwrap on shapes 0x0, 1x2, 2x1, 2x2; Vector/Matrix/Point unwrap on 7 non-double classes
            and on wrong column counts; string unwrap on non-char arrays -- each must raise, never return;
  handles : every sequence of <= 5 (6) operations over {wrap (virtual / non-virtual) of 2 objects, drop C++ owner,
            delete handle, unwrap_shared_ptr, unwrap_ptr}: a handle designates the object it was made from and an
            object is alive exactly as long as a handle or C++ owner exists.
"""
import os
import re
import shutil
import subprocess

from vf import gen

ID = 'C18'
LEVEL = 'model_checking'
ASSUMPTIONS = [
    'mock MEX API (zero-initialised arrays, mxGetProperty returns a copy, errors are C++ exceptions) stands for MATLAB; arrays MATLAB would free at MEX exit are not counted as leaks',
    'little-endian LP64 only (what this image is); Vector/Matrix/Point are minimal stand-ins with the interface matlab.h uses',
    'the MATLAB-side constructor that create_object calls is hand-written in the driver and does what a generated classdef does (collector insert, up-cast for virtual classes)',
]

SRC = os.path.join(os.path.dirname(os.path.dirname(os.path.abspath(__file__))), 'cxxsrc')


def build_driver(workdir, source='c18_driver.cpp', extra=()):
    from vf import core
    os.makedirs(os.path.join(workdir, 'gtwrap'), exist_ok=True)
    with open(os.path.join(workdir, 'gtwrap', 'matlab.h'), 'w') as f:
        f.write('#include "%s"\n' % os.path.join(core.REPO, 'matlab.h'))
    exe = os.path.join(workdir, 'driver')
    cmd = ['g++', '-std=c++17', '-O1', '-g', '-w', '-fsanitize=address,undefined', '-fno-sanitize-recover=undefined',
           '-I' + workdir, '-I' + SRC, os.path.join(SRC, source) if not os.path.isabs(source) else source,
           os.path.join(SRC, 'mockmex.cpp')] + list(extra) + ['-o', exe]
    r = subprocess.run(cmd, capture_output=True, text=True)
    return r.returncode, r.stderr, exe


def classify(line):
    """FAIL <category> | <detail>  ->  signature"""
    cat = line[5:].split(' | ')[0].strip()
    return 'C18|' + cat


def run_driver(case):
    wd = gen.mkdtemp('c18')
    try:
        rc, err, exe = build_driver(wd)
        if rc != 0:
            errs = [l for l in err.split('\n') if 'error' in l][:5]
            return {'viol': [{'sig': 'C18|matlab.h-does-not-compile', 'msg': 'matlab.h does not compile against the mock MEX API:\n' + '\n'.join(errs)}]}
        env = dict(os.environ, ASAN_OPTIONS='detect_leaks=0:abort_on_error=0', UBSAN_OPTIONS='print_stacktrace=1')
        r = subprocess.run([exe, str(case['strlen']), str(case['hdepth'])], capture_output=True, text=True, env=env, timeout=3000)
        viol = []
        summary = {}
        seen = {}
        for line in r.stdout.split('\n'):
            if line.startswith('FAIL '):
                sig = classify(line)
                seen.setdefault(sig, []).append(line[5:])
            elif line.startswith('SUMMARY'):
                summary = dict(kv.split('=') for kv in line.split()[1:])
        for sig, lines in seen.items():
            viol.append({'sig': sig, 'msg': '%d failing case(s); first: %s' % (len(lines), '; '.join(lines[:3])[:600])})
        if r.returncode != 0 or not summary:
            san = [l for l in r.stderr.split('\n') if 'ERROR' in l or 'runtime error' in l][:3]
            viol.append({'sig': 'C18|sanitizer-or-crash', 'msg': 'driver exited %d: %s' % (r.returncode, san or r.stderr[-500:])})
        return {'viol': viol, 'summary': summary}
    finally:
        shutil.rmtree(wd, ignore_errors=True)


def replay(case):
    return run_driver(case)['viol']


def run(ctx):
    case = {'strlen': 4 if ctx.thorough else 3, 'hdepth': 6 if ctx.thorough else 5}
    res = ctx.map(run_driver, [case], chunksize=1)
    summary = res[0][1].get('summary', {}) if res else {}
    return {
        'states': int(summary.get('handle_states', 0) or 0) or 1,
        'transitions': int(summary.get('handle_sequences', 0) or 0) or 1,
        'traces_validated_against_impl': int(summary.get('handle_sequences', 0) or 0),
        'samples': [{'handle sequence (ops 0-3 wrap, 4-5 drop owner, 6-7 delete handle, 8 unwrap_shared_ptr, 9 unwrap_ptr)': '0 2 8 9 4 6 7'},
                    {'value checks': int(summary.get('checks', 0) or 0)}],
        'exhaustive': True,
        'value_and_invariant_checks': int(summary.get('checks', 0) or 0),
        'rule': 'all value sets listed in the module docstring; all handle operation sequences of length <= %d over 10 operations '
                'on 2 objects, each replayed from fresh objects with the liveness/identity invariant checked after every step'
                % case['hdepth'],
    }
