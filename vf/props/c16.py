"""C16 — multiple interface files and the command-line scripts compose consistently (bounded-exhaustive exploration).

(a) pybind, multi-file module: for every split of a declaration sequence into 1..3 files, every file-name stem and
    every file ending: the main output declares and calls one initialiser per additional file, in order, and is
    otherwise what wrap_file gives for the main text; wrap_submodule(f) writes exactly <cwd>/<stem>.cpp (and
    nothing else) containing the definition of `void <stem>(py::module_ &m_)` around exactly what wrapping f's text
    alone yields; a compiled+linked+imported module of main + parts exposes everything (mock library of C04).
(b) MATLAB: wrap([f1..fn]) == wrap([one file holding f1 .. fn in sequence]) for every split and every file ending.
(c) scripts: for every option combination (top namespace depth 0..2, --ignore absent / empty / 1 / 2 entries,
    --is_submodule, --use-boost-serialization) each script, run as a real subprocess, writes byte-identical
    files to the library API called with the corresponding options, and nothing else.
"""
import itertools
import os
import shutil
import subprocess
import sys

from vf import cxx, dialect as D, gen
from vf.dialect import T, arg, single, pair
from vf.props import c07

ID = 'C16'
LEVEL = 'exploration'
ASSUMPTIONS = [
    'declarations of one file do not depend on the others (DOCS: a class from another file is made known by a forward declaration / include)',
    'the compiled composition check uses the instrumented mock library of C04 (no Eigen/Boost)',
]

ENDINGS = {'none': '', 'newline': '\n', 'line-comment': ' // trailing c', 'line-comment-nl': ' // trailing c\n',
           'block-comment': ' /* c */', 'spaces': '   ', 'crlf': '\r\n', 'open-ended-comment-text': '\n// class Zz {'}
STEMS = ['geo', 'my_geo', 'a.b', 'nav.interface', 'x']
PY_TPL = c07.PY_TPL


def decls():
    I = T('int')
    return [
        [D.ns('gt', [D.cls('Aa', [D.ctor('Aa'), D.method(single(I), 'fa', [arg(I, 'x', '1')], 1), D.method(single(T('void')), 'serialize', [], 1)])])],
        [D.func(single(I), 'freeOne', [arg(T('double'), 'd')]), D.enum('Color', ['Red', 'Green'])],
        [D.ns('gt', [D.cls('Bb', [D.ctor('Bb', [arg(I, 'n')]), D.static(single(I), 'Make', [])], v=1), D.var(T('double', 1), 'kB', '2.5')])],
        [D.ns('other', [D.cls('Cc', [D.ctor('Cc')], tpl=[D.tparam('T', [I, T('double')])]), D.func(single(T('void')), 'oc', [])])],
    ]


def splits(n, maxfiles):
    """All ways to cut a sequence of n items into 1..maxfiles non-empty consecutive files."""
    out = []
    for k in range(1, maxfiles + 1):
        for cuts in itertools.combinations(range(1, n), k - 1):
            b = [0] + list(cuts) + [n]
            out.append([list(range(b[i], b[i + 1])) for i in range(k)])
    return out


def file_text(items, ending):
    mod = []
    for i in items:
        mod += decls()[i]
    return D.render(mod).rstrip('\n') + ENDINGS[ending]


# ------------------------------------------------------------------ (a)+(b) library API
def check_split(case):
    groups, ending, stems, ext = case['groups'], case['ending'], case['stems'], case['ext']
    wd = gen.mkdtemp('c16')
    viol = []

    def add(sig, msg):
        viol.append({'sig': sig, 'msg': '%s\nsplit=%s ending=%r stems=%s ext=%s' % (msg, groups, ENDINGS[ending], stems, ext)})
    try:
        src = os.path.join(wd, 'src')
        os.makedirs(src)
        texts, paths = [], []
        for gi, g in enumerate(groups):
            t = file_text(g, ending)
            p = os.path.join(src, stems[gi] + ext)
            with open(p, 'w') as f:
                f.write(t)
            texts.append(t)
            paths.append(p)
        from gtwrap.pybind_wrapper import PybindWrapper
        from gtwrap.matlab_wrapper import MatlabWrapper
        # ---- pybind main file
        out = os.path.join(wd, 'out')
        os.makedirs(out)
        w = PybindWrapper(module_name='mod', top_module_namespaces=[''], ignore_classes=[''], module_template=gen.PY_TEMPLATE)
        w.wrap(paths, os.path.join(out, 'mod.cpp'))
        produced = sorted(os.listdir(out))
        if produced != ['mod.cpp']:
            add('C16|pybind-main|writes-other-files', 'wrap() produced %s' % produced)
        main = open(os.path.join(out, 'mod.cpp')).read()
        sec = gen.pybind_sections(main)
        want_decl = ['void %s(py::module_ &);' % s for s in stems[1:len(groups)]]
        want_init = ['%s(m_);' % s for s in stems[1:len(groups)]]
        got_decl = [l.strip() for l in sec['SUBMODULES'].split('\n') if l.strip()]
        got_init = [l.strip() for l in sec['INIT'].split('\n') if l.strip()]
        if got_decl != want_decl or got_init != want_init:
            add('C16|pybind-main|initialisers', 'declared %s / called %s, expected %s / %s' % (got_decl, got_init, want_decl, want_init))
        alone = gen.pybind(texts[0], module_name='mod', submodules=[])
        sa = gen.pybind_sections(alone)
        for k in ('INCLUDES', 'EXPORT', 'WRAPPED', 'DEF', 'NAME'):
            if sa[k] != sec[k]:
                add('C16|pybind-main|section-%s' % k, 'main output section %s differs from wrapping the main text alone' % k)
        # ---- pybind submodules
        for gi in range(1, len(groups)):
            cwd = os.path.join(wd, 'cwd%d' % gi)
            os.makedirs(cwd)
            old = os.getcwd()
            os.chdir(cwd)
            try:
                before_src = c07.snapshot(src)
                w2 = PybindWrapper(module_name='mod', top_module_namespaces=[''], ignore_classes=[''], module_template=gen.PY_TEMPLATE)
                w2.wrap_submodule(paths[gi])
            finally:
                os.chdir(old)
            files = sorted(os.listdir(cwd))
            if c07.snapshot(src) != before_src:
                add('C16|pybind-submodule|modifies-sources|%s' % ext, 'wrap_submodule changed the source directory')
            if files != [stems[gi] + '.cpp']:
                add('C16|pybind-submodule|output-file-name|%s|%s' % (ext, 'dotted-stem' if '.' in stems[gi] else 'plain-stem'),
                    'wrap_submodule(%s) wrote %s in the working directory, expected [%s.cpp]' % (os.path.basename(paths[gi]), files, stems[gi]))
                continue
            got = open(os.path.join(cwd, files[0])).read()
            want = gen.pybind(texts[gi], module_name=stems[gi], submodules=None)
            if got != want:
                add('C16|pybind-submodule|content', 'submodule output differs from wrapping its text alone')
            s2 = gen.pybind_sections(got)
            if s2['DEF'].strip() != 'void %s(py::module_ &m_)' % stems[gi]:
                add('C16|pybind-submodule|initialiser-definition', 'defines %r' % s2['DEF'].strip())
        # ---- one wrapper object used for the parts first and the main file afterwards (and the other way round):
        #      every file must be what the fresh wrappers above produced
        if len(groups) > 1:
            for order in ('parts-then-main', 'main-then-parts-then-main'):
                w3 = PybindWrapper(module_name='mod', top_module_namespaces=[''], ignore_classes=[''], module_template=gen.PY_TEMPLATE)
                cwd = os.path.join(wd, 'cwd-' + order)
                os.makedirs(cwd)
                old = os.getcwd()
                os.chdir(cwd)
                try:
                    if order != 'parts-then-main':
                        w3.wrap(paths, os.path.join(cwd, 'mod.cpp'))
                    for gi in range(1, len(groups)):
                        w3.wrap_submodule(paths[gi])
                    w3.wrap(paths, os.path.join(cwd, 'mod.cpp'))
                except Exception as e:
                    add('C16|pybind-one-wrapper|%s|raises' % order, 'one wrapper object used for parts and main file raised %s: %s' % (type(e).__name__, str(e)[:200]))
                    continue
                finally:
                    os.chdir(old)
                if open(os.path.join(cwd, 'mod.cpp')).read() != main:
                    add('C16|pybind-one-wrapper|%s|main-file-differs' % order,
                        'the main file written by a wrapper object that wrapped the additional files before differs from the one of a fresh wrapper')
                for gi in range(1, len(groups)):
                    f = os.path.join(cwd, stems[gi] + '.cpp')
                    if os.path.exists(f) and open(f).read() != gen.pybind(texts[gi], module_name=stems[gi], submodules=None):
                        add('C16|pybind-one-wrapper|%s|part-differs' % order, 'the file of an additional source written by a reused wrapper object differs from a fresh wrapper\'s')
        # ---- MATLAB: list of files == one file with the declarations in sequence
        try:
            tree_multi = gen.matlab(None, files=texts)
        except Exception as e:
            tree_multi = 'EXC %s: %s' % (type(e).__name__, str(e)[:150])
        tree_one = gen.matlab('\n'.join(texts))
        if len(texts) > 1 and not isinstance(tree_multi, str):
            # the same files under equal base names in different directories
            try:
                tree_unsorted = gen.matlab(None, files=texts, names=['z_first.i', 'a_second.i', 'm_third.i'][:len(texts)])
                if tree_unsorted != tree_one:
                    add('C16|matlab-files|file-names-not-in-alphabetical-order', 'wrapping [z_first.i, a_second.i, m_third.i] differs from wrapping the single '
                        'file holding their declarations in the listed order: %s'
                        % [k for k in sorted(set(tree_unsorted) | set(tree_one)) if tree_unsorted.get(k) != tree_one.get(k)][:6])
                tree_dirs = gen.matlab(None, files=texts, names=['geometry/types.i', 'linear/solver.i', 'linear/types.i'][:len(texts)])
            except Exception as e:
                tree_dirs = 'EXC %s: %s' % (type(e).__name__, str(e)[:150])
            if tree_dirs != tree_one:
                add('C16|matlab-files|same-base-name-in-two-directories', 'wrapping geometry/types.i, linear/solver.i, linear/types.i differs from '
                    'wrapping the single file: %s' % (tree_dirs if isinstance(tree_dirs, str) else
                                                     [k for k in sorted(set(tree_dirs) | set(tree_one)) if tree_dirs.get(k) != tree_one.get(k)][:6]))
        if tree_multi != tree_one:
            if isinstance(tree_multi, str):
                add('C16|matlab-files|rejected|%s' % ending, 'wrapping the file list fails (%s) while the single file works' % tree_multi)
            else:
                diff = [k for k in sorted(set(tree_multi) | set(tree_one)) if tree_multi.get(k) != tree_one.get(k)]
                add('C16|matlab-files|differs|%s' % ending, 'wrap(list of %d files) differs from wrap(single file): %s' % (len(texts), diff[:6]))
    finally:
        shutil.rmtree(wd, ignore_errors=True)
    return {'viol': viol}


def dep_decls():
    """Declarations that refer to each other across file boundaries (MATLAB wraps the files as one text)."""
    I = T('int')
    return [
        [D.ns('other', [D.cls('Cd', [D.ctor('Cd', [arg(T('T'), 'v')]), D.method(single(T('T')), 'get', [], 1)], tpl=[D.tparam('T')])]),
         D.ns('early', [D.typedef(T('Late', t=[I]), 'LateInt')]), D.typedef(T('Late', t=[T('double')]), 'LateDouble')],
        [D.ns('use', [D.typedef(T('other::Cd', t=[I]), 'CdInt')]), D.fwd('Holder'), D.cls('Late', [D.ctor('Late')], tpl=[D.tparam('U')])],
        [D.ns('use', [D.typedef(T('Holder', t=[T('double')]), 'HolderD'), D.ns('deep', [D.typedef(T('other::Cd', t=[T('string')]), 'CdStr')])]),
         D.typedef(T('other::Cd', t=[T('double')]), 'CdDouble'),
         D.cls('User', [D.ctor('User'), D.method(single(T('use::CdInt')), 'use', [arg(T('early::LateInt', 1, '&'), 'l')], 1)])],
    ]


def check_matlab_dep(case):
    viol = []
    texts = []
    for g in case['groups']:
        mod = []
        for i in g:
            mod += dep_decls()[i]
        texts.append(D.render(mod).rstrip('\n') + ENDINGS[case['ending']])
    one = '\n'.join(texts)
    try:
        tree_one = gen.matlab(one)
    except Exception as e:
        return {'viol': [{'sig': 'C16|matlab-dependent-files|single-file-rejected', 'msg': 'HARNESS? the single file is rejected: %s\n%s' % (e, one)}]}
    try:
        tree_multi = gen.matlab(None, files=texts)
    except Exception as e:
        return {'viol': [{'sig': 'C16|matlab-dependent-files|rejected', 'msg': 'wrapping the list of %d files fails (%s: %s) while the single file '
                          'holding the same declarations in sequence works\nsplit=%s ending=%r\n--- files ---\n%s'
                          % (len(texts), type(e).__name__, str(e)[:200], case['groups'], ENDINGS[case['ending']], '\n=====\n'.join(texts))}]}
    if tree_multi != tree_one:
        diff = [k for k in sorted(set(tree_multi) | set(tree_one)) if tree_multi.get(k) != tree_one.get(k)]
        viol.append({'sig': 'C16|matlab-dependent-files|differs', 'msg': 'wrap(list of %d files) differs from wrap(single file): %s\nsplit=%s ending=%r'
                     % (len(texts), diff[:6], case['groups'], ENDINGS[case['ending']])})
    return {'viol': viol}


# ------------------------------------------------------------------ (a) compiled composition
def check_link(case):
    """Main + parts compiled and linked into one extension module; everything must be importable."""
    d = case['dir']
    b = cxx.Builder(d)
    udir = b.unit_dir('link%d' % case['idx'])
    try:
        I = T('int')
        parts = [
            [D.include('mock.h'), D.ns('gt', [D.cls('Aa', [D.ctor('Aa'), D.method(single(I), 'fa', [arg(I, 'x', '1')], 1)]), D.enum('Kind', ['Dog', 'Cat'])])],
            [D.include('mock.h'), D.ns('gt', [D.cls('Bb', [D.ctor('Bb'), D.static(single(I), 'Make', [])])]), D.func(single(I), 'freeOne', [arg(T('double'), 'd')])],
            [D.include('mock.h'), D.ns('other', [D.cls('Cc', [D.ctor('Cc')]), D.func(single(T('void')), 'oc', [])])],
        ][:case['nfiles']]
        stems = case['stems']
        texts = [D.render(p).rstrip('\n') + ENDINGS[case['ending']] for p in parts]
        hdr, _ = cxx.mock_header([x for p in parts for x in p[1:]])
        with open(os.path.join(udir, 'mock.h'), 'w') as f:
            f.write(hdr)
        b.check_mock(udir)
        from gtwrap.pybind_wrapper import PybindWrapper
        paths = []
        for i, t in enumerate(texts):
            p = os.path.join(udir, stems[i] + '.i')
            with open(p, 'w') as f:
                f.write(t)
            paths.append(p)
        w = PybindWrapper(module_name='mod', top_module_namespaces=[''], ignore_classes=[''], module_template=cxx.MODULE_TEMPLATE)
        w.wrap(paths, os.path.join(udir, 'main.cpp'))
        cpps = ['main.cpp']
        old = os.getcwd()
        os.chdir(udir)
        try:
            for p in paths[1:]:
                PybindWrapper(module_name='mod', top_module_namespaces=[''], ignore_classes=[''],
                              module_template=cxx.MODULE_TEMPLATE.replace('    m_.def("_trace", [](){{ return vf::trace(); }});\n    m_.def("_clear", [](){{ vf::trace().clear(); }});\n', '')).wrap_submodule(p)
                cpps.append(os.path.basename(p)[:-2] + '.cpp')
        finally:
            os.chdir(old)
        missing = [c for c in cpps if not os.path.exists(os.path.join(udir, c))]
        if missing:
            return {'viol': [{'sig': 'C16|link|missing-part', 'msg': 'expected generated files %s, missing %s' % (cpps, missing)}]}
        rc, err, so = b.build_module(udir, 'mod', cpps)
        if rc != 0:
            return {'viol': [{'sig': 'C16|link|does-not-build|%s' % ('dotted-stem' if any('.' in s for s in stems[1:]) else 'plain-stem'),
                              'msg': 'main + parts do not compile/link: %s' % cxx.first_errors(err)}]}
        want = ['gt.Aa', 'gt.Kind'] + (['gt.Bb', 'freeOne'] if case['nfiles'] > 1 else []) + (['other.Cc', 'other.oc'] if case['nfiles'] > 2 else [])
        code = 'import sys; sys.path.insert(0, %r); import mod\nfor p in %r:\n    o = mod\n    for x in p.split("."):\n        o = getattr(o, x)\nprint("OK")' % (udir, want)
        r = subprocess.run([sys.executable, '-c', code], capture_output=True, text=True)
        if r.returncode != 0 or 'OK' not in r.stdout:
            return {'viol': [{'sig': 'C16|link|import', 'msg': 'combined module does not expose %s: %s' % (want, r.stderr[-400:])}]}
        return {'viol': []}
    finally:
        shutil.rmtree(udir, ignore_errors=True)


# ------------------------------------------------------------------ (c) scripts
def check_script(case):
    from vf import core
    wd = gen.mkdtemp('c16s')
    viol = []
    opt = case
    label = 'top%d%s|ignore-%s|%s|%s' % (len(opt['top']), '-leading-colons' if opt.get('leading_colons') else '', opt['ignk'], 'submodule' if opt['sub'] else 'main', 'ser' if opt['ser'] else 'noser')

    def add(sig, msg):
        viol.append({'sig': sig, 'msg': '%s\noptions: %s' % (msg, {k: opt[k] for k in ('script', 'top', 'ignore', 'sub', 'ser')})})
    try:
        I = T('int')
        mod = [D.cls('Gl', [D.ctor('Gl')]),
               D.ns('gt', [D.cls('Aa', [D.ctor('Aa'), D.method(single(T('void')), 'serialize', [], 1), D.method(single(I), 'fa', [], 1)]),
                           D.cls('AaPair', [D.ctor('AaPair')]),
                           D.cls('Tw', [D.ctor('Tw')], tpl=[D.tparam('A', [I]), D.tparam('B', [T('double'), T('bool')])]),
                           D.ns('inner', [D.cls('Bb', [D.ctor('Bb')]), D.func(single(I), 'fi', [])]),
                           D.func(single(I), 'fg', [arg(I, 'a', '1')])]),
               D.func(single(I), 'fglobal', [])]
        text = D.render(mod)
        src = os.path.join(wd, 'geo.i')
        with open(src, 'w') as f:
            f.write(text)
        tpl = os.path.join(wd, 'tpl.example')
        with open(tpl, 'w') as f:
            f.write(PY_TPL)
        out_s, out_a = os.path.join(wd, 'script_out'), os.path.join(wd, 'api_out')
        cwd_s, cwd_a = os.path.join(wd, 'script_cwd'), os.path.join(wd, 'api_cwd')
        for p in (out_s, out_a, cwd_s, cwd_a):
            os.makedirs(p)
        topns = [''] + opt['top'] if opt['top'] else ['']
        env = dict(os.environ, PYTHONPATH=core.REPO)
        if opt['script'] == 'pybind':
            cmd = [sys.executable, os.path.join(core.REPO, 'scripts', 'pybind_wrap.py'), '--src', src, '--module_name', 'mod',
                   '--out', os.path.join(out_s, 'mod.cpp'), '--template', tpl]
        else:
            cmd = [sys.executable, os.path.join(core.REPO, 'scripts', 'matlab_wrap.py'), '--src', src, '--module_name', 'mod', '--out', out_s]
        if opt['top']:
            cmd += ['--top_module_namespaces', ('::' if opt.get('leading_colons') else '') + '::'.join(opt['top'])]
        if opt['ignore'] is not None:
            cmd += ['--ignore'] + opt['ignore']
        if opt['ser']:
            cmd += ['--use-boost-serialization']
        if opt['sub']:
            cmd += ['--is_submodule']
        r = subprocess.run(cmd, capture_output=True, text=True, cwd=cwd_s, env=env, timeout=120)
        # library API with the corresponding options
        api_exc = None
        old = os.getcwd()
        os.chdir(cwd_a)
        try:
            ign = opt['ignore'] if opt['ignore'] is not None else []
            if opt['script'] == 'pybind':
                from gtwrap.pybind_wrapper import PybindWrapper
                w = PybindWrapper(module_name='mod', top_module_namespaces=topns, use_boost_serialization=opt['ser'],
                                  ignore_classes=ign, module_template=PY_TPL)
                if opt['sub']:
                    w.wrap_submodule(src)
                else:
                    w.wrap([src], os.path.join(out_a, 'mod.cpp'))
            else:
                from gtwrap.matlab_wrapper import MatlabWrapper
                MatlabWrapper(module_name='mod', top_module_namespace=topns, ignore_classes=ign,
                              use_boost_serialization=opt['ser']).wrap([src], path=out_a)
        except Exception as e:
            api_exc = '%s: %s' % (type(e).__name__, str(e)[:200])
        finally:
            os.chdir(old)
        if api_exc:
            if r.returncode == 0:
                add('C16|script-%s|api-fails-script-succeeds|%s' % (opt['script'], label), 'library API raised %s but the script exited 0' % api_exc)
            return {'viol': viol}
        if r.returncode != 0:
            tail = (r.stderr.strip().split('\n') or [''])[-1][:200]
            add('C16|script-%s|script-fails|ignore-%s' % (opt['script'], opt['ignk']),
                'the script exits %d (%s) while the library API succeeds with the corresponding options' % (r.returncode, tail))
            return {'viol': viol}
        ts, ta = gen.read_tree(out_s), gen.read_tree(out_a)
        cs, ca = gen.read_tree(cwd_s), gen.read_tree(cwd_a)
        if ts != ta or cs != ca:
            diff = [k for k in sorted(set(ts) | set(ta)) if ts.get(k) != ta.get(k)] + \
                   ['cwd:' + k for k in sorted(set(cs) | set(ca)) if cs.get(k) != ca.get(k)]
            add('C16|script-%s|output-differs-from-api|%s' % (opt['script'], label),
                'script output differs from the library API output in %s' % diff[:6])
    finally:
        shutil.rmtree(wd, ignore_errors=True)
    return {'viol': viol}


def replay(case):
    if case.get('mode') == 'script':
        return check_script(case)['viol']
    if case.get('mode') == 'matlab-dep':
        return check_matlab_dep(case)['viol']
    if case.get('mode') == 'link':
        d = gen.mkdtemp('c16r')
        try:
            b = cxx.Builder(d)
            b.build_pch()
            return check_link(dict(case, dir=d))['viol']
        finally:
            shutil.rmtree(d, ignore_errors=True)
    return check_split(case)['viol']


def run(ctx):
    n = len(decls())
    cases = []
    rot = ctx.seed % len(STEMS)
    stems = STEMS[rot:] + STEMS[:rot]
    for groups in splits(n, 3):
        for ending in ENDINGS:
            for ext in ('.i', '.h'):
                for st in ([stems[:3], [stems[0], stems[2], stems[3]]] if ctx.thorough or ext == '.i' else [stems[:3]]):
                    cases.append({'mode': 'split', 'groups': groups, 'ending': ending, 'stems': st, 'ext': ext})
    # stems of additional files that occur inside the main file's name (and inside each other)
    for groups in splits(n, 3):
        for st in (['nav_all', 'nav', 'all'], ['src', 'i', 'geo']):
            cases.append({'mode': 'split', 'groups': groups, 'ending': 'newline', 'stems': st, 'ext': '.i'})
    for ending in ('none', 'line-comment', 'newline', 'block-comment', 'open-ended-comment-text'):
        for groups in ([[0, 1], [], [2, 3]], [[0, 1, 2, 3], []], [[0], [1, 2, 3], []]):
            cases.append({'mode': 'split', 'groups': groups, 'ending': ending, 'stems': stems[:3], 'ext': '.i'})
    res = ctx.map(check_split, cases)
    dcases = [{'mode': 'matlab-dep', 'groups': g, 'ending': e} for g in splits(len(dep_decls()), 3) for e in ENDINGS]
    resd = ctx.map(check_matlab_dep, dcases)
    # scripts
    scases = []
    for script in ('pybind', 'matlab'):
        for top in ([], ['gt'], ['gt', 'inner']):
            for ignk, ign in (('absent', None), ('empty', []), ('one', ['gt::Aa']), ('two', ['gt::inner::Bb', 'Gl']),
                              ('superstring-of-another-class', ['gt::AaPair']),
                              ('template-instantiation-with-two-arguments', ['gt::Tw<int, double>', 'gt::TwIntBool'])):
                for sub in ((False, True) if script == 'pybind' else (False,)):
                    for ser in (False, True):
                        scases.append({'mode': 'script', 'script': script, 'top': top, 'ignk': ignk, 'ignore': ign, 'sub': sub, 'ser': ser})
    # the fully qualified spelling ::gt::inner of the top namespace
    for top in (['gt'], ['gt', 'inner']):
        for sub in (False, True):
            scases.append({'mode': 'script', 'script': 'pybind', 'top': top, 'ignk': 'absent', 'ignore': None, 'sub': sub, 'ser': False, 'leading_colons': True})
    res2 = ctx.map(check_script, scases, chunksize=1)
    # compiled composition
    d = gen.mkdtemp('c16')
    try:
        b = cxx.Builder(d)
        b.build_pch()
        lcases = []
        for nfiles in (1, 2, 3):
            for ending in (('none', 'line-comment', 'newline') if not ctx.thorough else list(ENDINGS)):
                for st in (['main', 'geo', 'nav_part'], ['main', 'my_geo', 'x']):
                    lcases.append({'mode': 'link', 'nfiles': nfiles, 'ending': ending, 'stems': st, 'dir': d, 'idx': len(lcases)})
        res3 = ctx.map(check_link, lcases, chunksize=1)
    finally:
        shutil.rmtree(d, ignore_errors=True)
    allc = cases + dcases + scases + lcases
    return {
        'evaluations': len(allc),
        'distinct_nontrivial': len({repr(sorted((k, str(v)) for k, v in c.items() if k not in ('dir', 'idx'))) for c in allc}),
        'rule': 'all splits of a 4-item declaration sequence into 1..3 files x %d file endings x extensions .i/.h x file stems '
                '(plain, underscore, dotted); all splits of 3 groups of declarations that refer to each other across the file boundaries (MATLAB); '
                '%d script option combinations (top namespace depth 0..2 x --ignore absent/empty/1/2/a name that extends another class name '
                'x --is_submodule x --use-boost-serialization) run as real subprocesses; %d compiled+linked+imported compositions'
                % (len(ENDINGS), len(scases), len(lcases)),
        'samples': [{'files': [file_text(g, 'line-comment') for g in [[0, 1], [2, 3]]]}],
        'exhaustive': True,
    }
