"""C14 — generation is a pure, repeatable function of inputs and options (model checking: configurations, histories, schedules).

(1) Configurations: one fresh subprocess per point of PYTHONHASHSEED x working directory x locale/encoding
    environment; each wraps the whole corpus with both generators and reports the sha256 of every output; all
    points must agree byte for byte.  The same subprocess audits every file opened: writes only to requested
    outputs, reads only inputs and bundled templates.
(2) Histories (explicit-state BFS on the real objects): sequences of wrap_file calls on ONE PybindWrapper and of
    fresh PybindWrapper / MatlabWrapper objects in one process, over the corpus; invariant in every state: the
    output of the last call equals the output of a fresh process.
(3) Schedules: 2 (3) wrapper runs with private wrapper objects writing different targets into ONE directory, run
    as baton-passing threads under our own scheduler with a scheduling point at every open / write / close / mkdir /
    makedirs / isdir; every interleaving up to a preemption bound is executed; invariant: no run raises, the final
    directory is the union of the serial results, nothing else is created; a recorded schedule replays identically.
"""
import builtins
import hashlib
import itertools
import json
import os
import shutil
import subprocess
import sys
import threading
import time

from vf import dialect as D
from vf import gen
from vf.dialect import T, arg, single, pair
from vf.props import c12, c17

ID = 'C14'
LEVEL = 'model_checking'
ASSUMPTIONS = [
    'locales limited to those installed (C, C.UTF-8, POSIX) combined with PYTHONUTF8 / PYTHONCOERCECLOCALE; hash seeds are a bounded set',
    'scheduling points are file-system calls (open, write, close, mkdir, makedirs, isdir); parsing and generation between them are atomic',
    'reuse of one wrapper object for several files is exercised for PybindWrapper only (MatlabWrapper accumulates ids by design: one object per toolbox)',
]


def corpus():
    I = T('int')
    c = dict(c12.seeds())
    c['serial'] = [D.ns('gt', [D.cls('Se', [D.ctor('Se'), D.method(single(T('void')), 'serialize', [], 1), D.method(single(I), 'x', [], 1)]),
                               D.cls('Sb', [D.method(single(T('void')), 'serializable', [], 1)]),
                               D.cls('Tw', [D.ctor('Tw'), D.method(single(T('void')), 'serialize', [], 1)],
                                     tpl=[D.tparam('A', [I]), D.tparam('B', [T('double')])])])]
    c['includes'] = [D.include('z/last.h'), D.include('a/first.h'), D.ns('gt', [D.include('m/mid.h'), D.include('gt/b.h'),
                     D.cls('Inc', [D.ctor('Inc')]), D.ns('deep', [D.include('deep/c.h'), D.include('a/again.h'), D.include('a/first.h')])]),
                     D.include('q/tail.h'), D.func(single(I), 'incf', []), D.include('z/last.h'), D.include('m/mid.h')]
    # (headers named more than once, at different levels: whatever a generator does with repeated headers has to be
    #  the same in every process)
    for tag, mname, rt in (('tdA', 'width', 'int'), ('tdB', 'height', 'double')):
        c[tag] = [D.ns('gt', [D.cls('Box', [D.ctor('Box', [arg(T('T'), 'v')]), D.method(single(T(rt)), mname, [], 1)], tpl=[D.tparam('T')]),
                              D.func(single(T('T')), 'unbox', [arg(T('T', 1, '&'), 'b'), arg(T(rt), mname)], tpl=[D.tparam('T')]),
                              D.typedef(T('gt::Box', t=[I]), 'BoxInt'), D.typedef(T('gt::unbox', t=[T('double')]), 'unboxDouble')])]
    # tab characters inside default values: tabA without any double quote in the file, tabB with one
    c['tabA'] = [D.func(single(T('void')), 'tabA', [arg(T('char'), 'c', "'\t'"), arg(I, 'n', '1\t+ 2')])]
    c['tabB'] = [D.func(single(T('void')), 'tabB', [arg(T('string'), 's', '"x\ty"')])]
    c['docs'] = [D.ns('gt', [D.cls('Foo', [D.method(single(I), 'same', [arg(I, 'v')]), D.method(single(I), 'same', [arg(T('double'), 'v')]),
                                           D.method(single(I), 'plain', [arg(I, 'a')])])])]
    return c


def corpus_texts(non_ascii=False):
    out = {}
    for k, m in corpus().items():
        t = D.render(m)
        if non_ascii:
            t = '// authors: Frédéric, 中村 — ünïcödé\n' + t + '/* café */\n'
        out[k] = t
    return out


XML_DOCS = {'gt::Foo': [{'name': 'same', 'params': [('int', 'v', None)], 'brief': 'first overload'},
                        {'name': 'same', 'params': [('double', 'v', None)], 'brief': 'second overload'},
                        {'name': 'plain', 'params': [('int', 'a', None)], 'brief': 'plain doc'}]}

WORKER = r'''
import hashlib, json, os, sys
sys.path.insert(0, sys.argv[1])
reads, writes = [], []
def hook(ev, args):
    if ev == 'open':
        p, mode = args[0], args[1]
        if isinstance(p, (str, bytes, os.PathLike)):
            p = os.path.abspath(os.fsdecode(p))
            (writes if mode and any(c in str(mode) for c in 'wax+') else reads).append(p)
sys.addaudithook(hook)
work = sys.argv[2]
START_CWD = os.getcwd()
from gtwrap.pybind_wrapper import PybindWrapper
from gtwrap.matlab_wrapper import MatlabWrapper
res = {}
tpl = open(os.path.join(work, 'tpl.example'), encoding='utf-8').read()
names = sorted(f[:-2] for f in os.listdir(os.path.join(work, 'src')) if f.endswith('.i'))
for n in names:
    src = os.path.join(work, 'src', n + '.i')
    out = os.path.join(work, 'out-' + sys.argv[3], n)
    os.makedirs(out, exist_ok=True)
    try:
        PybindWrapper(module_name=n, top_module_namespaces=[''], use_boost_serialization=True, ignore_classes=[''],
                      module_template=tpl, xml_source=os.path.join(work, 'xml')).wrap([src], os.path.join(out, n + '.cpp'))
        res[n + '/pybind'] = hashlib.sha256(open(os.path.join(out, n + '.cpp'), 'rb').read()).hexdigest()
    except Exception as e:
        res[n + '/pybind'] = 'EXC %s' % type(e).__name__
    try:
        sub = os.path.join(out, 'sub')
        os.makedirs(sub, exist_ok=True)
        old = os.getcwd()
        os.chdir(sub)
        try:
            PybindWrapper(module_name=n, top_module_namespaces=[''], use_boost_serialization=True, ignore_classes=[''],
                          module_template=tpl).wrap_submodule(src)
        finally:
            os.chdir(old)
        res[n + '/submodule'] = hashlib.sha256(open(os.path.join(sub, n + '.cpp'), 'rb').read()).hexdigest()
    except Exception as e:
        res[n + '/submodule'] = 'EXC %s' % type(e).__name__
    try:
        ml = os.path.join(out, 'toolbox')
        MatlabWrapper(module_name=n, ignore_classes=[''], use_boost_serialization=True).wrap([src], path=ml)
        h = hashlib.sha256()
        for dp, dn, fn in sorted(os.walk(ml)):
            dn.sort()
            for f in sorted(fn):
                p = os.path.join(dp, f)
                h.update(os.path.relpath(p, ml).encode()); h.update(open(p, 'rb').read())
        res[n + '/matlab'] = h.hexdigest()
    except Exception as e:
        res[n + '/matlab'] = 'EXC %s' % type(e).__name__
try:
    out = os.path.join(work, 'out-' + sys.argv[3], 'multi')
    os.makedirs(out, exist_ok=True)
    srcs = [os.path.join(work, 'src', n + '.i') for n in names]
    PybindWrapper(module_name='multi', top_module_namespaces=[''], use_boost_serialization=True, ignore_classes=[''],
                  module_template=tpl).wrap(srcs, os.path.join(out, 'multi.cpp'))
    res['multi/pybind'] = hashlib.sha256(open(os.path.join(out, 'multi.cpp'), 'rb').read()).hexdigest()
except Exception as e:
    res['multi/pybind'] = 'EXC %s' % type(e).__name__
try:
    ml = os.path.join(work, 'out-' + sys.argv[3], 'multi', 'toolbox')
    msrcs = [os.path.join(work, 'src', n + '.i') for n in ('serial', 'includes', 'tabA', 'includes') if n in names]
    MatlabWrapper(module_name='multi', ignore_classes=[''], use_boost_serialization=True).wrap(msrcs, path=ml)
    h = hashlib.sha256()
    for dp, dn, fn in sorted(os.walk(ml)):
        dn.sort()
        for f in sorted(fn):
            p = os.path.join(dp, f)
            h.update(os.path.relpath(p, ml).encode()); h.update(open(p, 'rb').read())
    res['multi/matlab'] = h.hexdigest()
except Exception as e:
    res['multi/matlab'] = 'EXC %s' % type(e).__name__
gone = sorted(p for p in set(writes) if not os.path.exists(p))
res['cwd-unchanged'] = str(os.getcwd() == START_CWD)
print(json.dumps({'digests': res, 'reads': sorted(set(reads)), 'writes': sorted(set(writes)), 'gone': gone}))
'''


def prepare_work(wd, non_ascii):
    os.makedirs(os.path.join(wd, 'src'), exist_ok=True)
    for k, t in corpus_texts(non_ascii).items():
        with open(os.path.join(wd, 'src', k + '.i'), 'w', encoding='utf-8') as f:
            f.write(t)
    with open(os.path.join(wd, 'tpl.example'), 'w') as f:
        f.write(gen.PY_TEMPLATE)
    c17.write_xml(os.path.join(wd, 'xml'), XML_DOCS)
    with open(os.path.join(wd, 'worker.py'), 'w') as f:
        f.write(WORKER)
    os.makedirs(os.path.join(wd, 'empty'), exist_ok=True)


def run_config(case):
    from vf import core
    wd = case['work']
    env = {k: v for k, v in os.environ.items() if not k.startswith(('LC_', 'LANG', 'PYTHON'))}
    env.update(case['env'])
    env['PYTHONHASHSEED'] = str(case['hashseed'])
    cwd = {'repo': core.REPO, 'empty': os.path.join(wd, 'empty'), 'work': wd}[case['cwd']]
    tag = case['tag']
    r = subprocess.run([sys.executable, os.path.join(wd, 'worker.py'), core.REPO, wd, tag], cwd=cwd, env=env,
                       capture_output=True, text=True, timeout=600)
    if r.returncode != 0:
        return {'viol': [], 'error': r.stderr[-600:], 'digests': None}
    data = json.loads(r.stdout.strip().split('\n')[-1])
    # audit
    viol = []
    outroot = os.path.join(wd, 'out-' + tag)
    allowed_read = (os.path.join(wd, 'src'), os.path.join(wd, 'xml'), os.path.join(wd, 'tpl.example'), core.REPO,
                    sys.prefix, sys.base_prefix, '/usr/lib', '/usr/share', '/etc', '/proc', '/dev', outroot, '/root/.pyenv')
    for p in data['writes']:
        if not p.startswith(outroot + os.sep):
            viol.append({'sig': 'C14|audit|writes-outside-outputs', 'msg': 'a wrapper run opened %s for writing (outputs live under %s)' % (p, outroot)})
    if data['digests'].get('cwd-unchanged') != 'True':
        viol.append({'sig': 'C14|audit|working-directory-changed', 'msg': 'the wrapper runs left the process in another working directory'})
    for p in data.get('gone', []):
        viol.append({'sig': 'C14|audit|scratch-file-next-to-the-outputs', 'msg': 'a wrapper run wrote %s, which is not one of its outputs (it no longer '
                     'exists when the run is over): two runs into the same directory would share it' % p})
    for p in data['reads']:
        if not p.startswith(allowed_read):
            viol.append({'sig': 'C14|audit|reads-unrelated-file', 'msg': 'a wrapper run read %s' % p})
        elif p.startswith(core.REPO) and not (p.endswith(('.py', '.pyc', '.tpl', '.typed')) or '__pycache__' in p or '.egg' in p or 'METADATA' in p):
            viol.append({'sig': 'C14|audit|reads-unexpected-repo-file', 'msg': 'a wrapper run read %s' % p})
    return {'viol': viol, 'digests': data['digests']}


# ------------------------------------------------------------------ (2) histories
def fresh_outputs(text, name):
    """Output of both generators from brand-new wrapper objects (reference for histories)."""
    return history_outputs({'ops': [('fresh', name)]})


_hist_work = {}


def _xml_dir():
    d = _hist_work.get('xml')
    if d is None:
        d = gen.mkdtemp('c14x')
        c17.write_xml(os.path.join(d, 'xml'), XML_DOCS)
        _hist_work['xml'] = d
    return os.path.join(d, 'xml')


def run_history(case):
    """case['ops']: list of (kind, module name); kind = 'same' (reuse the one PybindWrapper), 'fresh' (new PybindWrapper),
    'matlab' (new MatlabWrapper).  Returns digest of the LAST op's output and a canonical summary of wrapper state."""
    from gtwrap.pybind_wrapper import PybindWrapper
    texts = corpus_texts()
    xml = _xml_dir()

    def mk():
        return PybindWrapper(module_name='mod', top_module_namespaces=[''], use_boost_serialization=True, ignore_classes=[''],
                             module_template=gen.PY_TEMPLATE, xml_source=xml)
    shared = mk()
    last = None
    try:
        for kind, name in case['ops']:
            if kind == 'same':
                last = ('py', gen.pybind(texts[name], wrapper=shared))
            elif kind == 'fresh':
                last = ('py', gen.pybind(texts[name], wrapper=mk()))
            else:
                last = ('ml', gen.matlab(texts[name], serialization=True))
    except Exception as e:
        return {'viol': [], 'digest': 'EXC %s: %s' % (type(e).__name__, str(e)[:100]), 'state': 'exc'}
    blob = last[1] if last[0] == 'py' else json.dumps(sorted(last[1].items()))
    state = (tuple(shared._serializing_classes), tuple(sorted(getattr(shared.xml_parser, '_memory', {}).items())))
    return {'viol': [], 'digest': hashlib.sha256(blob.encode()).hexdigest(), 'state': repr(state)}


def run_long_reuse(case):
    """One PybindWrapper wraps every corpus module, three times round; every output must equal that of a fresh wrapper."""
    from gtwrap.pybind_wrapper import PybindWrapper
    import gc
    texts = corpus_texts()
    xml = _xml_dir()

    def mk():
        return PybindWrapper(module_name='mod', top_module_namespaces=[''], use_boost_serialization=True, ignore_classes=[''],
                             module_template=gen.PY_TEMPLATE, xml_source=xml)
    ref = {n: gen.pybind(t, wrapper=mk()) for n, t in texts.items()}
    shared = mk()
    viol = []
    n = 0
    cwd0 = os.path.dirname(os.path.dirname(os.path.dirname(os.path.abspath(__file__))))
    for rnd in range(3):
        for name in sorted(texts, reverse=bool(rnd % 2)):
            out = gen.pybind(texts[name], wrapper=shared)
            gc.collect()
            n += 1
            if out != ref[name]:
                viol.append({'sig': 'C14|history|long-reuse-of-one-wrapper|pybind',
                             'msg': 'after %d wraps with one PybindWrapper the output for module %s differs from that of a fresh wrapper' % (n, name)})
                return {'viol': viol, 'n': n}
    # the working directory is the caller's: relative paths, several wraps in one process
    from gtwrap.matlab_wrapper import MatlabWrapper
    wd = gen.mkdtemp('c14r')
    try:
        os.chdir(wd)
        for i, name in enumerate(('class', 'inherit')):
            with open('m%d.i' % i, 'w') as f:
                f.write(texts[name])
            MatlabWrapper(module_name='m%d' % i, ignore_classes=['']).wrap(['m%d.i' % i], path='out%d' % i)
            if os.getcwd() != wd:
                viol.append({'sig': 'C14|history|working-directory-changed|matlab', 'msg': 'MatlabWrapper.wrap left the process in %s (was %s)' % (os.getcwd(), wd)})
                break
            PybindWrapper(module_name='m%d' % i, top_module_namespaces=[''], ignore_classes=[''], module_template=gen.PY_TEMPLATE).wrap(['m%d.i' % i], 'p%d.cpp' % i)
            if os.getcwd() != wd:
                viol.append({'sig': 'C14|history|working-directory-changed|pybind', 'msg': 'PybindWrapper.wrap left the process in %s' % os.getcwd()})
                break
        if not viol and sorted(x for x in os.listdir(wd)) != ['m0.i', 'm1.i', 'out0', 'out1', 'p0.cpp', 'p1.cpp']:
            viol.append({'sig': 'C14|history|relative-paths|outputs-misplaced', 'msg': 'two wraps with relative paths left %s' % sorted(os.listdir(wd))})
    except Exception as e:
        viol.append({'sig': 'C14|history|relative-paths|%s' % type(e).__name__, 'msg': 'two wraps with relative paths in one process: %s: %s' % (type(e).__name__, e)})
    finally:
        os.chdir(cwd0)
        shutil.rmtree(wd, ignore_errors=True)
    return {'viol': viol, 'n': n}


def run_dir_history(case):
    """Wrap revision A, then revision B (same length, different content) into the SAME output location; the result
    must equal wrapping B into an empty location."""
    I = T('int')

    def rev(mname, ename):
        return D.render([D.ns('gt', [D.cls('Rv', [D.ctor('Rv'), D.method(single(I), mname, [arg(I, 'x')], 1)]),
                                     D.enum('Ev', [ename, 'Zz']), D.func(single(I), 'fr', [arg(I, mname)])])])
    a, b = rev('scale', 'Aa'), rev('shift', 'Bb')
    assert len(a) == len(b)
    # a longer revision with the same set of output files (more members in the same class)
    longer = D.render([D.ns('gt', [D.cls('Rv', [D.ctor('Rv'), D.ctor('Rv', [arg(I, 'seed'), arg(T('double'), 'weight', '1.5')]),
                                                D.method(single(I), 'scaleBy', [arg(I, 'x'), arg(I, 'y', '2')], 1),
                                                D.method(single(T('string')), 'describe', [], 1), D.static(single(I), 'Count', [])]),
                                   D.enum('Ev', ['Aa', 'Bb', 'Cc', 'Zz']), D.func(single(I), 'fr', [arg(I, 'scale'), arg(I, 'more', '3')])])])
    assert len(longer) > len(b) + 100
    wd = gen.mkdtemp('c14d')
    viol = []
    try:
        from gtwrap.pybind_wrapper import PybindWrapper
        from gtwrap.matlab_wrapper import MatlabWrapper
        res = {}
        for name, first in (('over-older-output', a), ('over-same-output', b), ('over-longer-output', longer), ('empty', None)):
            d = os.path.join(wd, name)
            os.makedirs(os.path.join(d, 'src'))
            os.makedirs(os.path.join(d, 'out'))
            for text in ([first] if first is not None else []) + [b]:
                src = os.path.join(d, 'src', 'rv.i')
                with open(src, 'w') as f:
                    f.write(text)
                PybindWrapper(module_name='rv', top_module_namespaces=[''], ignore_classes=[''],
                              module_template=gen.PY_TEMPLATE).wrap([src], os.path.join(d, 'out', 'rv.cpp'))
                MatlabWrapper(module_name='rv', ignore_classes=['']).wrap([src], path=os.path.join(d, 'out', 'toolbox'))
            res[name] = gen.read_tree(os.path.join(d, 'out'))
        for name in ('over-older-output', 'over-same-output', 'over-longer-output'):
            if res[name] != res['empty']:
                diff = [k for k in sorted(set(res[name]) | set(res['empty'])) if res[name].get(k) != res['empty'].get(k)]
                viol.append({'sig': 'C14|previous-run|%s|%s' % (name, 'matlab' if any('toolbox' in k for k in diff) else 'pybind'),
                             'msg': 'wrapping into a location that holds the output of an earlier run (%s) gives a different result than '
                                    'wrapping into an empty one: %s' % (name, diff[:6])})
        # two modules that share a namespace, wrapped one after the other into the same toolbox directory
        m1 = D.render([D.ns('gt', [D.cls('One', [D.ctor('One'), D.method(single(I), 'a', [], 1)]), D.func(single(I), 'f1', [])])])
        m2 = D.render([D.ns('gt', [D.cls('Two', [D.ctor('Two')]), D.enum('E2', ['X']), D.ns('inner', [D.cls('In2', [D.ctor('In2')])])]),
                       D.ns('other', [D.func(single(I), 'f2', [])])])
        trees = {}
        for name, seq in (('both', (('m1', m1), ('m2', m2))), ('both-reversed', (('m2', m2), ('m1', m1))), ('only-m1', (('m1', m1),)), ('only-m2', (('m2', m2),))):
            d = os.path.join(wd, 'shared-' + name)
            os.makedirs(os.path.join(d, 'src'))
            for mname, text in seq:
                src = os.path.join(d, 'src', mname + '.i')
                with open(src, 'w') as f:
                    f.write(text)
                MatlabWrapper(module_name=mname, ignore_classes=['']).wrap([src], path=os.path.join(d, 'toolbox'))
            trees[name] = gen.read_tree(os.path.join(d, 'toolbox'))
        union = dict(trees['only-m1'], **trees['only-m2'])
        for name in ('both', 'both-reversed'):
            if trees[name] != union:
                diff = [k for k in sorted(set(trees[name]) | set(union)) if trees[name].get(k) != union.get(k)]
                viol.append({'sig': 'C14|previous-run|two-modules-sharing-a-package|matlab',
                             'msg': 'wrapping two modules that share namespace gt into one toolbox directory (%s) does not give the union of '
                                    'their toolboxes: %s' % (name, diff[:6])})
        # Doxygen XML regenerated between two wraps of one process: a new wrapper must see the new documentation
        xmld = os.path.join(wd, 'xmlregen')
        text = D.render(corpus()['docs'])
        outs = []
        for rev_i in (1, 2):
            docs = {'gt::Foo': [dict(m, brief='%s (revision %d)' % (m['brief'], rev_i)) for m in XML_DOCS['gt::Foo']]}
            c17.write_xml(xmld, docs)
            outs.append(gen.pybind(text, xml_source=xmld))
        if 'revision 2' not in outs[1] or 'revision 1' in outs[1]:
            viol.append({'sig': 'C14|previous-run|xml-regenerated|pybind',
                         'msg': 'after the Doxygen XML was regenerated, a new wrapper in the same process still embeds the old documentation'})
    finally:
        shutil.rmtree(wd, ignore_errors=True)
    return {'viol': viol}


# ------------------------------------------------------------------ (3) schedules
class Baton:
    """Cooperative scheduler: exactly one wrapper thread runs at a time; at every scheduling point the running
    thread asks which thread goes next.  `choices` is the list of decisions to replay (index into the canonical
    enabled list: running thread first, then ascending ids); beyond it choice 0 is taken."""

    def __init__(self, n, choices):
        self.n = n
        self.choices = list(choices)
        self.taken = []          # (enabled list, choice index, running still enabled)
        self.sems = [threading.Semaphore(0) for _ in range(n)]
        self.done = [False] * n
        self.main = threading.Semaphore(0)
        self.current = None
        self.error = [None] * n
        self.trace = []

    def enabled(self):
        cur = self.current
        others = [i for i in range(self.n) if not self.done[i] and i != cur]
        if cur is not None and not self.done[cur]:
            return [cur] + others
        return others

    def pick(self):
        en = self.enabled()
        if not en:
            return None
        k = len(self.taken)
        c = self.choices[k] if k < len(self.choices) else 0
        if c >= len(en):
            raise RuntimeError('schedule prefix diverged: choice %d of %r' % (c, en))
        self.taken.append((list(en), c, self.current is not None and not self.done[self.current]))
        return en[c]

    def point(self, me, label):
        """Scheduling point inside thread `me`."""
        self.trace.append((me, label))
        nxt = self.pick()
        if nxt != me:
            self.current = nxt
            self.sems[nxt].release()
            self.sems[me].acquire()
            self.current = me

    def finish(self, me):
        self.done[me] = True
        nxt = self.pick()
        if nxt is None:
            self.main.release()
        else:
            self.current = nxt
            self.sems[nxt].release()


class FileProxy:
    def __init__(self, f, baton, me, path):
        self._f, self._b, self._me, self._p = f, baton, me, path

    def write(self, data):
        self._b.point(self._me, 'write ' + self._p)
        return self._f.write(data)

    def read(self, *a):
        return self._f.read(*a)

    def close(self):
        self._b.point(self._me, 'close ' + self._p)
        return self._f.close()

    def __enter__(self):
        return self

    def __exit__(self, *a):
        self.close()
        return False

    def __getattr__(self, n):
        return getattr(self._f, n)


_tls = threading.local()


def run_schedule(jobs, root, choices):
    """jobs: list of callables(root). Runs them as baton-passing threads under schedule `choices`."""
    b = Baton(len(jobs), choices)
    real_open, real_makedirs, real_mkdir, real_isdir = builtins.open, os.makedirs, os.mkdir, os.path.isdir

    def me():
        return getattr(_tls, 'id', None)

    def p_open(file, mode='r', *a, **kw):
        i = me()
        if i is None or not isinstance(file, (str, os.PathLike)) or not os.path.abspath(file).startswith(root):
            return real_open(file, mode, *a, **kw)
        rel = os.path.relpath(file, root)
        b.point(i, 'open(%s) %s' % (mode, rel))
        return FileProxy(real_open(file, mode, *a, **kw), b, i, rel)

    def p_makedirs(path, *a, **kw):
        i = me()
        if i is not None:
            b.point(i, 'makedirs ' + os.path.relpath(path, root))
        return real_makedirs(path, *a, **kw)

    def p_mkdir(path, *a, **kw):
        i = me()
        if i is not None:
            b.point(i, 'mkdir ' + os.path.relpath(path, root))
        return real_mkdir(path, *a, **kw)

    def p_isdir(path):
        i = me()
        if i is not None and isinstance(path, str) and os.path.abspath(path).startswith(root):
            b.point(i, 'isdir ' + os.path.relpath(path, root))
        return real_isdir(path)

    def body(i):
        _tls.id = i
        b.sems[i].acquire()
        b.current = i
        try:
            jobs[i](root)
        except BaseException as e:   # noqa
            b.error[i] = '%s: %s' % (type(e).__name__, str(e)[:200])
        finally:
            _tls.id = None
            b.finish(i)

    builtins.open, os.makedirs, os.mkdir, os.path.isdir = p_open, p_makedirs, p_mkdir, p_isdir
    try:
        threads = [threading.Thread(target=body, args=(i,), daemon=True) for i in range(len(jobs))]
        for t in threads:
            t.start()
        first = b.pick()
        b.current = first
        b.sems[first].release()
        if not b.main.acquire(timeout=120):
            raise RuntimeError('schedule did not terminate (deadlock in the harness?)')
        for t in threads:
            t.join(timeout=10)
    finally:
        builtins.open, os.makedirs, os.mkdir, os.path.isdir = real_open, real_makedirs, real_mkdir, real_isdir
    return b


def make_jobs(kind, names, srcdir):
    texts = corpus_texts()
    jobs = []
    for n in names:
        src = os.path.join(srcdir, n + '.i')
        if not os.path.exists(src):
            with open(src, 'w') as f:
                f.write(texts[n])
        if kind == 'pybind':
            def job(root, n=n, src=src):
                from gtwrap.pybind_wrapper import PybindWrapper
                PybindWrapper(module_name=n, top_module_namespaces=[''], ignore_classes=[''], use_boost_serialization=True,
                              module_template=gen.PY_TEMPLATE).wrap([src], os.path.join(root, n + '.cpp'))
        else:
            def job(root, n=n, src=src):
                from gtwrap.matlab_wrapper import MatlabWrapper
                MatlabWrapper(module_name=n, ignore_classes=[''], use_boost_serialization=True).wrap([src], path=os.path.join(root, 'toolbox'))
        jobs.append(job)
    return jobs


def explore_schedules(case):
    """All interleavings of the jobs' scheduling points with at most `bound` preemptions (iterative context bounding)."""
    kind, names, bound = case['kind'], case['names'], case['bound']
    base = gen.mkdtemp('c14s')
    viol = []
    try:
        srcdir = os.path.join(base, 'src')
        os.makedirs(srcdir)
        jobs = make_jobs(kind, names, srcdir)
        # serial reference: each job alone into its own directory, union of the trees
        want = {}
        for i, j in enumerate(jobs):
            d = os.path.join(base, 'serial%d' % i)
            os.makedirs(d)
            j(d)
            for k, v in gen.read_tree(d).items():
                if k in want and want[k] != v and v is not None:
                    raise RuntimeError('jobs are not independent: both write %s' % k)
                want[k] = v
        nexec = 0
        sched_states = set()
        outcomes = set()
        maxpoints = 0
        stack = [[]]
        seen_prefix = set()
        cap = case.get('cap', 20000)
        capped = False
        while stack:
            prefix = stack.pop()
            if nexec >= cap:
                capped = True
                break
            root = os.path.join(base, 'run')
            shutil.rmtree(root, ignore_errors=True)
            os.makedirs(root)
            b = run_schedule(jobs, root, prefix)
            nexec += 1
            maxpoints = max(maxpoints, len(b.taken))
            # scheduler states visited: the vector of per-thread progress after every scheduling point
            prog = [0] * len(jobs)
            for who, _ in b.trace:
                prog[who] += 1
                sched_states.add(tuple(prog))
            got = gen.read_tree(root)
            outcomes.add(hashlib.sha256(json.dumps(sorted((k, v) for k, v in got.items())).encode()).hexdigest())
            errs = [e for e in b.error if e]
            sched = [c for _, c, _ in b.taken]
            if errs:
                viol.append({'sig': 'C14|schedule|%s|run-raised' % kind,
                             'msg': 'a wrapper run failed under schedule %s: %s\ntrace: %s' % (sched, errs, b.trace[-12:])})
            elif got != want:
                diff = [k for k in sorted(set(got) | set(want)) if got.get(k) != want.get(k)]
                viol.append({'sig': 'C14|schedule|%s|directory-differs-from-serial-union' % kind,
                             'msg': 'under schedule %s the shared directory differs from the union of the serial results in %s\ntrace: %s'
                                    % (sched, diff[:6], b.trace[-12:])})
            if viol:
                # determinism guard: the same schedule must reproduce
                shutil.rmtree(root, ignore_errors=True)
                os.makedirs(root)
                b2 = run_schedule(jobs, root, sched)
                if [c for _, c, _ in b2.taken] != sched or b2.trace != b.trace:
                    raise RuntimeError('schedule replay diverged (harness nondeterminism)')
                break
            # children: deviate at every point after the prefix
            pre = 0
            costs = []
            for en, c, running_enabled in b.taken:
                costs.append(pre)
                if c != 0 and running_enabled:
                    pre += 1
            for i in range(len(prefix), len(b.taken)):
                en, c, running_enabled = b.taken[i]
                cost = costs[i] + (1 if running_enabled else 0)
                if cost > bound:
                    continue
                for alt in range(1, len(en)):
                    stack.append(sched[:i] + [alt])
        return {'viol': viol, 'executions': nexec, 'outcomes': len(outcomes), 'points': maxpoints, 'capped': capped,
                'sched_states': len(sched_states)}
    finally:
        shutil.rmtree(base, ignore_errors=True)


def replay(case):
    if case.get('mode') == 'long-reuse':
        return run_long_reuse(case)['viol']
    if case.get('mode') == 'dir-history':
        return run_dir_history(case)['viol']
    if case.get('kind') in ('pybind', 'matlab') and 'bound' in case:
        return explore_schedules(case)['viol']
    return []


def run(ctx):
    _t0 = time.time()
    wd = gen.mkdtemp('c14')
    states, transitions, traces = set(), 0, 0
    samples = []
    try:
        # ---------------- (1) configurations
        cfg_viol_before = len(ctx.violations)
        for non_ascii in (False, True):
            w = os.path.join(wd, 'na' if non_ascii else 'ascii')
            prepare_work(w, non_ascii)
            envs = {
                'C.UTF-8': {'LANG': 'C.UTF-8'}, 'C': {'LANG': 'C', 'LC_ALL': 'C'}, 'POSIX': {'LC_ALL': 'POSIX'},
                'C-nocoerce': {'LC_ALL': 'C', 'PYTHONCOERCECLOCALE': '0'}, 'C-noutf8': {'LC_ALL': 'C', 'PYTHONCOERCECLOCALE': '0', 'PYTHONUTF8': '0'},
                'utf8mode': {'LC_ALL': 'C', 'PYTHONUTF8': '1'},
            }
            seeds = list(range(64)) + ['random'] if ctx.thorough else list(range(8))
            cases = []
            for hs in seeds:
                for cwd in ('repo', 'empty', 'work'):
                    ek = list(envs)[(len(cases)) % len(envs)] if not ctx.thorough else None
                    for name in ([ek] if ek else list(envs)):
                        cases.append({'work': w, 'hashseed': hs, 'cwd': cwd, 'env': envs[name], 'envname': name,
                                      'tag': 'h%s-%s-%s' % (hs, cwd, name)})
            # every locale setting at least once with seed 0
            for name in envs:
                cases.append({'work': w, 'hashseed': 0, 'cwd': 'empty', 'env': envs[name], 'envname': name, 'tag': 'loc-%s' % name})
            res = ctx.map(run_config, cases, chunksize=1)
            ref = None
            for c, r in res:
                transitions += 1
                if r.get('digests') is None:
                    ctx.add_violation('C14|config|subprocess-failed|%s' % c['envname'], 'wrapper subprocess failed: %s' % r.get('error'), c)
                    continue
                traces += 1
                if ref is None:
                    ref = (c, r['digests'])
                    samples.append({'config': {k: c[k] for k in ('hashseed', 'cwd', 'envname')}, 'digests': dict(list(r['digests'].items())[:3])})
                    continue
                for k in sorted(r['digests']):
                    if r['digests'][k] != ref[1].get(k):
                        gen_ = k.split('/')[1]
                        what = 'fails' if str(r['digests'][k]).startswith('EXC') else 'differs'
                        ctx.add_violation('C14|config|%s-output-%s|%s|%s' % (gen_, what, 'non-ascii-input' if non_ascii else 'ascii-input',
                                                                         c['envname'] if what == 'fails' or True else ''),
                                          'output %s under (hash seed %s, cwd %s, env %s) is %s; reference (%s): %s'
                                          % (k, c['hashseed'], c['cwd'], c['env'], r['digests'][k], {x: ref[0][x] for x in ('hashseed', 'cwd', 'envname')}, ref[1].get(k)), c)
                states.add(json.dumps(r['digests'], sort_keys=True))
        # ---------------- (2) histories
        names = sorted(corpus())
        depth = 3 if ctx.thorough else 2
        hcases = []
        kinds = ('same', 'fresh', 'matlab')
        for L in range(1, depth + 1):
            for ops in itertools.product([(k, n) for k in kinds for n in names], repeat=L):
                if L == depth and not ctx.thorough and ops[-1][1] not in ('serial', 'docs', 'class', 'templates', 'tdB', 'tabA'):
                    continue
                hcases.append({'ops': [list(o) for o in ops]})
        fresh = {}
        res = ctx.map(run_history, hcases)
        for c, r in res:
            if len(c['ops']) == 1:
                fresh[tuple(c['ops'][0])] = r['digest']
        for c, r in res:
            transitions += 1
            traces += 1
            states.add(r.get('state'))
            last = c['ops'][-1]
            refkey = ('fresh' if last[0] == 'same' else last[0], last[1])
            if r['digest'] != fresh.get(refkey):
                ctx.add_violation('C14|history|%s-after-%s' % (last[0], '+'.join(o[0] for o in c['ops'][:-1]) or 'nothing'),
                                  'output of the last call of history %s differs from the output of a fresh wrapper (%s vs %s)'
                                  % (c['ops'], str(r['digest'])[:60], str(fresh.get(refkey))[:16]), c)
        samples.append({'history': hcases[len(hcases) // 2]['ops']})
        ctx.map(run_dir_history, [{'mode': 'dir-history'}], chunksize=1)
        ctx.map(run_long_reuse, [{'mode': 'long-reuse'}], chunksize=1)
        transitions += 3
        traces += 3
        # ---------------- (3) schedules
        scases = [{'kind': 'pybind', 'names': ['class', 'mixed'], 'bound': 2 if not ctx.thorough else 99},
                  {'kind': 'matlab', 'names': ['inherit', 'serial'], 'bound': 1 if not ctx.thorough else 2, 'cap': 1500 if not ctx.thorough else 30000},
                  {'kind': 'pybind', 'names': ['class', 'mixed', 'docs'], 'bound': 1 if not ctx.thorough else 3}]
        if ctx.thorough:
            scases.append({'kind': 'matlab', 'names': ['inherit', 'serial', 'docs'], 'bound': 1, 'cap': 30000})
        res = ctx.map(explore_schedules, scases, chunksize=1)
        sched_summary = []
        nsched_states = 0
        for c, r in res:
            transitions += r.get('executions', 0)
            traces += r.get('executions', 0)
            nsched_states += r.get('sched_states', 0)
            sched_summary.append({'jobs': '%s x %s' % (c['kind'], c['names']), 'preemption_bound': c['bound'],
                                  'executions': r.get('executions'), 'distinct_outcomes': r.get('outcomes'),
                                  'scheduling_points': r.get('points'), 'scheduler_states': r.get('sched_states'),
                                  'cap_hit': r.get('capped')})
        samples.append({'schedules': sched_summary})
    finally:
        shutil.rmtree(wd, ignore_errors=True)
        d = _hist_work.pop('xml', None)
        if d:
            shutil.rmtree(d, ignore_errors=True)
        # the per-worker Doxygen folders of the history runs (created lazily inside the pool's processes)
        import glob as _glob
        for p in _glob.glob(os.path.join(os.path.dirname(wd), 'c14x-*')):
            try:
                if os.path.getmtime(p) >= _t0 - 1:
                    shutil.rmtree(p, ignore_errors=True)
            except OSError:
                pass
    return {
        'states': len(states) + nsched_states,
        'transitions': transitions,
        'traces_validated_against_impl': traces,
        'samples': samples,
        'exhaustive': not any(s.get('cap_hit') for s in sched_summary),
        'schedule_exploration': sched_summary,
        'rule': 'configurations: hash seeds %s x 3 working directories x 6 locale/encoding environments (ASCII and non-ASCII '
                'inputs), one subprocess each over a corpus of %d modules; histories: every sequence of <= %d calls over '
                '{reused PybindWrapper, fresh PybindWrapper, fresh MatlabWrapper} x corpus; schedules: all interleavings of the '
                'file-system calls of 2-3 concurrent wrapper runs within the stated preemption bounds'
                % ('0..63 + random' if ctx.thorough else '0..7', len(corpus()), depth),
    }
