"""C04 — every Python binding forwards to the declared C++ entity, faithfully (exploration on executed programs).

A family of callables (constructor / method / const method / static / free function / templated method and
function / operator / property) x argument patterns x every trailing default mask x return shapes x scopes is
generated; the real generator's output is compiled into an extension module against an instrumented mock library
(vf/cxx.py) whose every entity records (qualified name + explicit template arguments, this, argument values,
result).  A generated driver calls every binding positionally, with keywords in reversed order and with every
defaulted suffix omitted, and compares the recorded call with the declared entity and values.
"""
import itertools
import json
import os
import shutil
import subprocess
import sys

from vf import cxx, dialect as D, gen
from vf.dialect import T, arg, single, pair

ID = 'C04'
LEVEL = 'exploration'
ASSUMPTIONS = [
    'instrumented mock library generated from the spec (vf/cxx.py) stands for "a conforming C++ library"',
    'types limited to what the mock can implement without Eigen/Boost: int double bool size_t string, classes by value / const& / shared / raw pointer, enums, std::vector<int>, pairs',
    'pybind11 from /repo/pybind11, CPython 3.12 of /venv; extension modules are imported in a fresh subprocess per translation unit',
]

V = 'std::vector'

# ---------------------------------------------------------------- argument patterns
# each: list of (type spec, python value generator key, default literal or None)
def patterns():
    A = 'gt::Arg'
    return {
        'none': [],
        'int': [(T('int'), 'int', '41')],
        'int-double': [(T('int'), 'int', '41'), (T('double'), 'double', '4.5')],
        'string-bool-size_t': [(T('string'), 'str', '"d  0"'), (T('bool'), 'bool', 'true'), (T('size_t'), 'int', '43')],
        # parameters whose names are Python keywords keep their declared names as keyword arguments
        'keyword-named': [(T('int'), 'int', '41', 'lambda'), (T('double'), 'double', '4.5', 'from'), (T('int'), 'int', '43', 'in')],
        'int4': [(T('int'), 'int', '41'), (T('int'), 'int', '42'), (T('int'), 'int', '43'), (T('int'), 'int', '44')],
        'cref-string-double3': [(T('string', 1, '&'), 'str', '"s0"'), (T('double'), 'double', '1.5'),
                                (T('double'), 'double', '2.5'), (T('double', 1, '&'), 'double', '3.5')],
        'obj-value': [(T(A), 'obj', None)],
        'obj-cref-shared': [(T(A, 1, '&'), 'obj', None), (T(A, 0, '*'), 'obj', None)],
        'obj-raw-int': [(T(A, 0, '@'), 'obj', None), (T('int'), 'int', '47')],
        'enums': [(T('gt::Kind'), 'enum:gt.Kind', 'gt::Kind::Cat'), (T('gt::Holder::Mode'), 'enum:gt.Holder.Mode', 'gt::Holder::Mode::SLOW')],
        'vector-int': [(T(V, 1, '&', [T('int')]), 'vec', 'std::vector<int>(2, 7)'), (T('int'), 'int', '49')],
        'char-uchar': [(T('char'), 'char', "'q'"), (T('unsigned char'), 'uchar', '200')],
    }


RETURNS = {
    'void': single(T('void')), 'int': single(T('int')), 'double': single(T('double')), 'bool': single(T('bool')),
    'string': single(T('string')), 'size_t': single(T('size_t')),
    'obj': single(T('gt::Arg')), 'shared': single(T('gt::Arg', 0, '*')),
    'pair-int-shared': pair(T('int'), T('gt::Arg', 0, '*')), 'pair-obj-double': pair(T('gt::Arg'), T('double')),
    'enum': single(T('gt::Kind')), 'class-enum': single(T('gt::Holder::Mode')), 'vector': single(T(V, t=[T('int')])),
}

NAMES = ['a', 'b', 'c', 'd']


def callables():
    """Yield dicts describing every callable of the family (kind-independent part)."""
    out = []
    pats = patterns()
    for pk, pat in pats.items():
        n = len(pat)
        maxk = 0
        for t, g, dflt, *_ in reversed(pat):
            if dflt is None:
                break
            maxk += 1
        for k in range(0, maxk + 1):
            out.append({'pat': pk, 'k': k, 'ret': 'int'})
    for rk in RETURNS:
        if rk != 'int':
            out.append({'pat': 'int-double', 'k': 1, 'ret': rk})
    out.append({'pat': 'obj-cref-shared', 'k': 0, 'ret': 'obj'})
    return out


KINDS = ['method', 'cmethod', 'static', 'function', 'ctor']


def make_args(c):
    pat = patterns()[c['pat']]
    n = len(pat)
    args = []
    for i, (t, g, dflt, *nm) in enumerate(pat):
        args.append(arg(t, nm[0] if nm else NAMES[i], dflt if i >= n - c['k'] else None))
    return args


def support_decls():
    return [
        D.enum('Kind', ['Dog', 'Cat', 'Emu']),
        D.cls('Arg', [D.ctor('Arg'), D.method(single(T('int')), 'objId', [], 1)]),
        D.cls('Holder', [D.enum('Mode', ['FAST', 'SLOW', 'OFF'], 'enum class'), D.ctor('Holder'),
                         D.method(single(T('int')), 'objId', [], 1)]),
    ]


def build_unit(unit):
    """unit: {'kind':..., 'scope': 'gt'|'gt::inner'|'' , 'callables':[...]} -> (module spec, test plan)."""
    kind = unit['kind']
    plan = []
    cname = 'Host'
    scope = unit.get('scope', 'gt')
    spath = [p for p in scope.split('::') if p]
    qual = '::'.join(spath + [cname])
    pyq = '.'.join(spath + [cname])
    members = [D.ctor(cname), D.method(single(T('int')), 'objId', [], 1)]
    funcs = []
    for i, c in enumerate(unit['callables']):
        args = make_args(c)
        r = RETURNS[c['ret']]
        name = '%s%d' % ({'method': 'm', 'cmethod': 'cm', 'static': 's', 'function': 'fn', 'ctor': 'ct'}[kind], i)
        step = {'pat': c['pat'], 'k': c['k'], 'ret': c['ret'], 'names': [a['n'] for a in args],
                'gens': [p[1] for p in patterns()[c['pat']]],
                'defaults': [a['d'] for a in args]}
        if kind in ('method', 'cmethod'):
            members.append(D.method(r, name, args, 1 if kind == 'cmethod' else 0))
            step.update({'kind': 'method', 'cls': pyq, 'name': name, 'entity': '%s::%s' % (qual, name)})
        elif kind == 'static':
            members.append(D.static(r, name, args))
            step.update({'kind': 'static', 'cls': pyq, 'name': name, 'entity': '%s::%s' % (qual, name)})
        elif kind == 'function':
            funcs.append(D.func(r, name, args))
            step.update({'kind': 'function', 'mod': '.'.join(spath), 'name': name, 'entity': '::'.join(spath + [name])})
        elif kind == 'ctor':
            # constructors are told apart by arity + a leading tag class per overload set: one class per ctor
            cn = 'Ct%d' % i
            funcs.append(D.cls(cn, [D.ctor(cn, args), D.method(single(T('int')), 'objId', [], 1)]))
            step.update({'kind': 'ctor', 'cls': '.'.join(spath + [cn]), 'entity': '%s::%s' % ('::'.join(spath + [cn]), cn)})
        plan.append(step)
    body = []
    if kind in ('method', 'cmethod', 'static'):
        body.append(D.cls(cname, members))
    body += funcs
    mod = [D.include('mock.h'), D.ns('gt', support_decls())]
    if spath == ['gt']:
        mod[1]['c'] += body
    elif spath == ['gt', 'inner']:
        mod[1]['c'].append(D.ns('inner', body))
    else:
        mod += body
    return mod, plan


def special_unit():
    """Templates, overload sets, operators, properties, enums, inheritance, derived calls."""
    A = 'gt::Arg'
    plan = []
    gt = support_decls()
    # overload set (different names/types as DOCS requires)
    gt.append(D.cls('Ov', [D.ctor('Ov'), D.method(single(T('int')), 'objId', [], 1),
                           D.method(single(T('int')), 'ov', [arg(T('int'), 'a')]),
                           D.method(single(T('int')), 'ov', [arg(T('string'), 's'), arg(T('int'), 'y', '9')]),
                           D.method(single(T('int')), 'ov', [arg(T(A, 1, '&'), 'o')]),
                           D.static(single(T('int')), 'sov', [arg(T('int'), 'a')]),
                           D.static(single(T('int')), 'sov', [arg(T('string'), 's')])]))
    plan += [
        {'kind': 'overload', 'cls': 'gt.Ov', 'name': 'ov', 'entity': 'gt::Ov::ov', 'gens': ['int'], 'names': ['a'], 'sig': ['int']},
        {'kind': 'overload', 'cls': 'gt.Ov', 'name': 'ov', 'entity': 'gt::Ov::ov', 'gens': ['str', 'int'], 'names': ['s', 'y'], 'sig': ['str', 'int']},
        {'kind': 'overload', 'cls': 'gt.Ov', 'name': 'ov', 'entity': 'gt::Ov::ov', 'gens': ['obj'], 'names': ['o'], 'sig': ['obj']},
        {'kind': 'overload-static', 'cls': 'gt.Ov', 'name': 'sov', 'entity': 'gt::Ov::sov', 'gens': ['int'], 'names': ['a'], 'sig': ['int']},
        {'kind': 'overload-static', 'cls': 'gt.Ov', 'name': 'sov', 'entity': 'gt::Ov::sov', 'gens': ['str'], 'names': ['s'], 'sig': ['str']},
    ]
    # templated class with 2 instantiations + method template with explicit args + static template
    gt.append(D.cls('Tc', [D.ctor('Tc'), D.ctor('Tc', [arg(T('T', 1, '&'), 'v')]), D.method(single(T('int')), 'objId', [], 1),
                           D.method(single(T('int')), 'put', [arg(T('T'), 'x'), arg(T('int'), 'n', '3')]),
                           D.method(single(T('int')), 'many', [arg(T(V, 1, '&', [T('T')]), 'xs')]),
                           D.method(single(T('int')), 'as', [arg(T('U', 1, '&'), 'u'), arg(T('T'), 't')],
                                    tpl=[D.tparam('U', [T('double'), T(A)])]),
                           D.static(single(T('int')), 'conv', [arg(T('U'), 'u')], tpl=[D.tparam('U', [T('string'), T('int')])]),
                           # default values that merely *mention* the parameter names (inside literals)
                           D.method(single(T('int')), 'tag', [arg(T('T'), 'x'), arg(T('string'), 's', '"T"'), arg(T('char'), 'c', "'T'"), arg(T('int'), 'n', '44')]),
                           D.method(single(T('int')), 'utag', [arg(T('U'), 'u'), arg(T('string'), 's', '"U of T"')],
                                    tpl=[D.tparam('U', [T('double')])])],
                    tpl=[D.tparam('T', [T('int'), T(A)])]))
    for tn, tg, pyn in (('int', 'int', 'TcInt'), (A, 'obj', 'TcArg')):
        plan.append({'kind': 'ctor', 'cls': 'gt.' + pyn, 'entity': 'gt::Tc<%s>::Tc' % tn, 'gens': [tg], 'names': ['v'], 'defaults': [None], 'k': 0})
        plan.append({'kind': 'method', 'cls': 'gt.' + pyn, 'name': 'put', 'entity': 'gt::Tc<%s>::put' % tn, 'gens': [tg, 'int'],
                     'names': ['x', 'n'], 'defaults': [None, '3'], 'k': 1})
        plan.append({'kind': 'method', 'cls': 'gt.' + pyn, 'name': 'many', 'entity': 'gt::Tc<%s>::many' % tn,
                     'gens': ['vec' if tg == 'int' else 'objvec'], 'names': ['xs'], 'defaults': [None], 'k': 0})
        for un, ug, us in (('double', 'double', 'Double'), (A, 'obj', 'Arg')):
            plan.append({'kind': 'method', 'cls': 'gt.' + pyn, 'name': 'as' + us, 'entity': 'gt::Tc<%s>::as<%s>' % (tn, un),
                         'gens': [ug, tg], 'names': ['u', 't'], 'defaults': [None, None], 'k': 0})
        plan.append({'kind': 'method', 'cls': 'gt.' + pyn, 'name': 'tag', 'entity': 'gt::Tc<%s>::tag' % tn, 'gens': [tg, 'str', 'char', 'int'],
                     'names': ['x', 's', 'c', 'n'], 'defaults': [None, '"T"', "'T'", '44'], 'k': 3})
        plan.append({'kind': 'method', 'cls': 'gt.' + pyn, 'name': 'utagDouble', 'entity': 'gt::Tc<%s>::utag<double>' % tn, 'gens': ['double', 'str'],
                     'names': ['u', 's'], 'defaults': [None, '"U of T"'], 'k': 1})
        for un, ug, us in (('std::string', 'str', 'String'), ('int', 'int', 'Int')):
            plan.append({'kind': 'static', 'cls': 'gt.' + pyn, 'name': 'conv' + us, 'entity': 'gt::Tc<%s>::conv<%s>' % (tn, un),
                         'gens': [ug], 'names': ['u'], 'defaults': [None], 'k': 0})
    # templated free function, explicit template arguments
    gt.append(D.func(single(T('int')), 'tf', [arg(T('T', 1, '&'), 'a'), arg(T('int'), 'k', '2')],
                     tpl=[D.tparam('T', [T('double'), T(A), T(V, t=[T('int')])])]))
    gt.append(D.func(single(T('int')), 'tlit', [arg(T('T'), 'a'), arg(T('string'), 's', '"T"')], tpl=[D.tparam('T', [T('double')])]))
    plan.append({'kind': 'function', 'mod': 'gt', 'name': 'tlitDouble', 'entity': 'gt::tlit<double>', 'gens': ['double', 'str'],
                 'names': ['a', 's'], 'defaults': [None, '"T"'], 'k': 1})
    # non-void members whose names begin with `print` (only `print` itself is special)
    gt.append(D.cls('Pn', [D.ctor('Pn'), D.method(single(T('int')), 'objId', [], 1),
                           D.method(single(T('string')), 'printSummary', [arg(T('int'), 'verbose')], 1),
                           D.method(single(T('double')), 'printError', [arg(T('int'), 'o')], 1),
                           D.method(single(T('int')), 'printed', [], 1),
                           D.static(single(T('int')), 'printCount', [arg(T('int'), 'i')]),
                           D.method(single(T('int')), 'reprint', [arg(T('int'), 'i')])]))
    for nm, gens_, names_ in (('printSummary', ['int'], ['verbose']), ('printError', ['int'], ['o']), ('printed', [], []), ('reprint', ['int'], ['i'])):
        plan.append({'kind': 'method', 'cls': 'gt.Pn', 'name': nm, 'entity': 'gt::Pn::' + nm, 'gens': gens_, 'names': names_,
                     'defaults': [None] * len(gens_), 'k': 0})
    plan.append({'kind': 'static', 'cls': 'gt.Pn', 'name': 'printCount', 'entity': 'gt::Pn::printCount', 'gens': ['int'], 'names': ['i'],
                 'defaults': [None], 'k': 0})
    for tn, tg, suf in (('double', 'double', 'Double'), (A, 'obj', 'Arg'), ('std::vector<int>', 'vec', 'Vectorint')):
        plan.append({'kind': 'function', 'mod': 'gt', 'name': 'tf' + suf, 'entity': 'gt::tf<%s>' % tn, 'gens': [tg, 'int'],
                     'names': ['a', 'k'], 'defaults': [None, '2'], 'k': 1})
    # operators
    ops2 = ['+', '-', '*', '/', '%', '^', '&', '|', '<<', '>>']
    cmp_ = ['==', '!=', '<', '>', '<=', '>=']
    gt.append(D.cls('Op', [D.ctor('Op'), D.method(single(T('int')), 'objId', [], 1)] +
                    [D.op(single(T('gt::Op')), o, [arg(T('gt::Op', 1, '&'), 'o')]) for o in ops2] +
                    [D.op(single(T('Op')), o, [arg(T('Op', 1, '&'), 'o')]) for o in cmp_] +
                    [D.op(single(T('gt::Op')), '+', []), D.op(single(T('gt::Op')), '-', []),
                     D.op(single(T('double')), '()', [arg(T('int'), 'i')]), D.op(single(T('int')), '[]', [arg(T('size_t'), 'i')])]))
    for o in ops2 + cmp_:
        plan.append({'kind': 'binop', 'cls': 'gt.Op', 'op': o, 'entity': 'gt::Op::operator' + o})
    # unary operators declared in front of binary ones
    gt.append(D.cls('Ou', [D.ctor('Ou'), D.method(single(T('int')), 'objId', [], 1),
                           D.op(single(T('gt::Ou')), '-', []), D.op(single(T('gt::Ou')), '-', [arg(T('gt::Ou', 1, '&'), 'o')]),
                           D.op(single(T('gt::Ou')), '+', []), D.op(single(T('gt::Ou')), '*', [arg(T('gt::Ou', 1, '&'), 'o')]),
                           D.op(single(T('gt::Ou')), '+', [arg(T('gt::Ou', 1, '&'), 'o')]),
                           D.op(single(T('Ou')), '==', [arg(T('Ou', 1, '&'), 'o')])]))
    for o in ('-', '*', '+', '=='):
        plan.append({'kind': 'binop', 'cls': 'gt.Ou', 'op': o, 'entity': 'gt::Ou::operator' + o})
    plan += [{'kind': 'unop', 'cls': 'gt.Ou', 'op': '-', 'entity': 'gt::Ou::operator-'}, {'kind': 'unop', 'cls': 'gt.Ou', 'op': '+', 'entity': 'gt::Ou::operator+'}]
    plan += [{'kind': 'unop', 'cls': 'gt.Op', 'op': '-', 'entity': 'gt::Op::operator-'},
             {'kind': 'unop', 'cls': 'gt.Op', 'op': '+', 'entity': 'gt::Op::operator+'},
             {'kind': 'callop', 'cls': 'gt.Op', 'entity': 'gt::Op::operator()'},
             {'kind': 'indexop', 'cls': 'gt.Op', 'entity': 'gt::Op::operator[]'}]
    # properties
    gt.append(D.cls('Pr', [D.ctor('Pr'), D.prop(T('int'), 'p1'), D.prop(T('int'), 'p2'), D.prop(T('double', 1), 'fixed'),
                           D.prop(T('string'), 'name'), D.prop(T(A), 'obj'), D.prop(T('gt::Kind'), 'kind'),
                           D.prop(T('string', 1), 'cname'), D.prop(T(A, 1, '*'), 'cshared')]))
    plan.append({'kind': 'props', 'cls': 'gt.Pr', 'rw': [['p1', 'int'], ['p2', 'int'], ['name', 'str'], ['kind', 'enum:gt.Kind']],
                 'ro': ['fixed', 'cname', 'cshared'], 'objprop': 'obj'})
    # enumerators
    plan.append({'kind': 'enum', 'path': 'gt.Kind', 'values': {'Dog': 5, 'Cat': 9, 'Emu': 13}})
    plan.append({'kind': 'enum', 'path': 'gt.Holder.Mode', 'values': {'FAST': 5, 'SLOW': 9, 'OFF': 13}})
    # inheritance
    gt.append(D.cls('Ba', [D.ctor('Ba'), D.method(single(T('int')), 'objId', [], 1), D.method(single(T('int')), 'base', [arg(T('int'), 'a')], 1)], v=1))
    gt.append(D.cls('De', [D.ctor('De'), D.method(single(T('int')), 'derived', [], 1)], v=1, b=T('gt::Ba')))
    gt.append(D.ns('deep', [D.cls('Dd', [D.ctor('Dd')], v=1, b=T('gt::Ba'))]))
    gt.append(D.cls('Dn', [D.enum('Mode', ['ON', 'OFF']), D.ctor('Dn')], v=1, b=T('gt::Ba')))
    plan.append({'kind': 'inherit', 'derived': 'gt.Dn', 'base': 'gt.Ba', 'method': 'base', 'entity': 'gt::Ba::base'})
    plan.append({'kind': 'inherit', 'derived': 'gt.De', 'base': 'gt.Ba', 'method': 'base', 'entity': 'gt::Ba::base'})
    plan.append({'kind': 'inherit', 'derived': 'gt.deep.Dd', 'base': 'gt.Ba', 'method': 'base', 'entity': 'gt::Ba::base'})
    # variables
    gt.append(D.var(T('double', 1), 'kGravity', '-9.81'))
    gt.append(D.var(T('int'), 'counter'))
    plan.append({'kind': 'var', 'path': 'gt.kGravity', 'value': -9.81})
    plan.append({'kind': 'var', 'path': 'gt.counter', 'value': 7})
    return [D.include('mock.h'), D.ns('gt', gt)], plan


DRIVER = r'''
import json, sys, importlib
sys.path.insert(0, sys.argv[1])
M = importlib.import_module('mod')
plan = json.load(open(sys.argv[2]))
fails = []
ncalls = 0

def get(path):
    o = M
    for p in path.split('.'):
        if p:
            o = getattr(o, p)
    return o

def rep(v, hint=None):
    if hint == 'char': return 'c:%d' % ord(v)
    if hint == 'uchar': return 'uc:%d' % (v if isinstance(v, int) else ord(v))
    if v is None: return 'void'
    if isinstance(v, bool): return 'true' if v else 'false'
    if isinstance(v, int): return str(v)
    if isinstance(v, float): return format(v, '.17g')
    if isinstance(v, str): return 's:' + v
    if isinstance(v, list): return '[' + ','.join(rep(x) for x in v) + ']'
    if isinstance(v, tuple): return '(' + ','.join(rep(x) for x in v) + ')'
    if hasattr(v, 'objId'): return '#%d' % v.objId()
    if hasattr(v, '__int__') and hasattr(v, 'name'): return 'e:%d' % int(v)
    return 'py:' + repr(v)

counter = [10]
def ARG():
    return get(ARGCLS[0])()
ARGCLS = ['gt.Arg']
def gen_value(g, pos):
    counter[0] += 1
    n = counter[0]
    if g == 'int': return n, None
    if g == 'double': return n + 0.25, None
    if g == 'bool': return (n % 2 == 0), None
    if g == 'str': return 'v%d' % n, None
    if g == 'obj': return ARG(), None
    if g == 'vec': return [n, n + 1, n + 2], None
    if g == 'objvec': return [ARG(), ARG()], None
    if g == 'char': return chr(97 + n % 26), 'char'
    if g == 'uchar': return 100 + n % 100, 'uchar'
    if g.startswith('enum:'):
        e = get(g[5:]); members = list(e.__members__.values()); return members[pos % len(members)], None
    raise ValueError(g)

DEFAULT_REPR = {'"d  0"': 's:d  0', '41': '41', '42': '42', '43': '43', '44': '44', '4.5': '4.5', '"d0"': 's:d0', 'true': 'true', '47': '47', '49': '49',
                'gt::Kind::Cat': 'e:9', 'gt::Holder::Mode::SLOW': 'e:9', 'std::vector<int>(2, 7)': '[7,7]', "'q'": 'c:113', '200': 'uc:200',
                '"s0"': 's:s0', '"T"': 's:T', "'T'": 'c:84', '"U of T"': 's:U of T', '1.5': '1.5', '2.5': '2.5', '3.5': '3.5', '3': '3', '2': '2', '9': '9'}

def check(step, label, fn, entity, this, argreprs):
    global ncalls
    M._clear()
    try:
        r = fn()
    except Exception as e:
        fails.append({'step': step, 'form': label, 'what': 'call-raised', 'detail': '%s: %s' % (type(e).__name__, str(e)[:300])})
        return None
    ncalls += 1
    tr = list(M._trace())
    M._clear()
    want_prefix = entity + ('@%d' % this if this else '') + '(' + ','.join(argreprs) + ')->'
    if len(tr) != 1:
        fails.append({'step': step, 'form': label, 'what': 'trace-length', 'detail': 'expected 1 call %s, recorded %r' % (want_prefix, tr)})
        return r
    line = tr[0]
    if not line.startswith(want_prefix):
        what = 'wrong-entity' if not line.startswith(entity + ('@' if this else '(')) else 'wrong-arguments'
        fails.append({'step': step, 'form': label, 'what': what, 'detail': 'expected %s..., recorded %s' % (want_prefix, line)})
        return r
    got = line[len(want_prefix):]
    if step.get('kind') == 'ctor':
        return r
    if rep(r) != got:
        fails.append({'step': step, 'form': label, 'what': 'wrong-result', 'detail': 'C++ returned %s, Python received %s' % (got, rep(r))})
    return r

def run_callable(step):
    kind = step['kind']
    gens, names = step['gens'], step['names']
    n = len(gens)
    k = step.get('k', 0)
    vals = [gen_value(g, i) for i, g in enumerate(gens)]
    pv = [v for v, _ in vals]
    reprs = [rep(v, h) for v, h in vals]
    this = 0
    if kind in ('method', 'overload'):
        inst = get(step['cls'])()
        this = inst.objId()
        target = getattr(inst, step['name'])
    elif kind in ('static', 'overload-static'):
        target = getattr(get(step['cls']), step['name'])
    elif kind == 'function':
        target = getattr(get(step['mod']), step['name'])
    elif kind == 'ctor':
        target = get(step['cls'])
    entity = step['entity']
    # positional
    check(step, 'positional', lambda: target(*pv), entity, this, reprs)
    # keywords, reversed order
    if n:
        kw = dict(reversed(list(zip(names, pv))))
        check(step, 'keywords-reversed', lambda: target(**kw), entity, this, reprs)
    # mixed: first positional, rest keywords
    if n >= 2:
        kw2 = dict(zip(names[1:], pv[1:]))
        check(step, 'mixed', lambda: target(pv[0], **kw2), entity, this, reprs)
    # every defaulted suffix omitted
    for j in range(1, k + 1):
        dre = []
        for d in step['defaults'][n - j:]:
            dre.append(DEFAULT_REPR.get(d, '?' + str(d)))
        check(step, 'omit-%d-defaults' % j, lambda: target(*pv[:n - j]), entity, this, reprs[:n - j] + dre)
    # one more argument than declared must be rejected (arity is part of the declaration)
    try:
        target(*(pv + [1]))
        fails.append({'step': step, 'form': 'extra-argument', 'what': 'accepted-extra-argument', 'detail': ''})
    except TypeError:
        pass
    M._clear()
    if kind == 'method':
        # instance call: calling through the class without an instance must fail
        try:
            getattr(get(step['cls']), step['name'])(*pv)
            fails.append({'step': step, 'form': 'no-instance', 'what': 'method-callable-without-instance', 'detail': ''})
        except TypeError:
            pass
        M._clear()
    if kind == 'static':
        # class-level call must not need an instance and the attribute must be a static method
        pass

import operator as OP
BIN = {'+': OP.add, '-': OP.sub, '*': OP.mul, '/': OP.truediv, '%': OP.mod, '^': OP.xor, '&': OP.and_, '|': OP.or_,
       '<<': OP.lshift, '>>': OP.rshift, '==': OP.eq, '!=': OP.ne, '<': OP.lt, '>': OP.gt, '<=': OP.le, '>=': OP.ge}

for step in plan:
    kind = step['kind']
    try:
        if kind == 'config':
            ARGCLS[0] = step['argcls']
            continue
        if kind in ('method', 'static', 'function', 'ctor', 'overload', 'overload-static'):
            run_callable(step)
        elif kind == 'binop':
            C = get(step['cls']); a, b = C(), C()
            check(step, 'binary', lambda: BIN[step['op']](a, b), step['entity'], a.objId(), [rep(b)])
        elif kind == 'unop':
            C = get(step['cls']); a = C()
            check(step, 'unary', lambda: (OP.neg(a) if step['op'] == '-' else OP.pos(a)), step['entity'], a.objId(), [])
        elif kind == 'callop':
            C = get(step['cls']); a = C()
            check(step, 'call', lambda: a(31), step['entity'], a.objId(), ['31'])
        elif kind == 'indexop':
            C = get(step['cls']); a = C()
            check(step, 'index', lambda: a[32], step['entity'], a.objId(), ['32'])
        elif kind == 'props':
            o = get(step['cls'])()
            vals = {}
            for i, (p, g) in enumerate(step['rw']):
                v, _ = gen_value(g, i + 1)
                try:
                    setattr(o, p, v)
                except Exception as e:
                    fails.append({'step': step, 'form': p, 'what': 'property-not-writable', 'detail': str(e)[:200]})
                vals[p] = v
            for p, v in vals.items():
                if getattr(o, p) != v:
                    fails.append({'step': step, 'form': p, 'what': 'property-wrong-field', 'detail': 'wrote %r, read %r' % (v, getattr(o, p))})
            for p in step['ro']:
                try:
                    setattr(o, p, getattr(o, p))
                    fails.append({'step': step, 'form': p, 'what': 'const-property-writable', 'detail': ''})
                except AttributeError:
                    pass
            a = ARG()
            setattr(o, step['objprop'], a)
            if getattr(o, step['objprop']).objId() != a.objId():
                fails.append({'step': step, 'form': step['objprop'], 'what': 'property-wrong-field', 'detail': 'object property'})
            ncalls += len(vals) + 2
        elif kind == 'enum':
            e = get(step['path'])
            got = {k: int(v) for k, v in e.__members__.items()}
            if got != step['values']:
                fails.append({'step': step, 'form': 'enumerators', 'what': 'enumerator-mapping', 'detail': 'expected %r, got %r' % (step['values'], got)})
            ncalls += 1
        elif kind == 'inherit':
            Dv, B = get(step['derived']), get(step['base'])
            if not issubclass(Dv, B):
                fails.append({'step': step, 'form': 'issubclass', 'what': 'base-not-registered', 'detail': ''})
            else:
                d = Dv()
                check(step, 'inherited-call', lambda: getattr(d, step['method'])(5), step['entity'], d.objId(), ['5'])
        elif kind == 'var':
            v = get(step['path'])
            if v != step['value']:
                fails.append({'step': step, 'form': 'value', 'what': 'variable-value', 'detail': 'expected %r, got %r' % (step['value'], v)})
            ncalls += 1
    except Exception as e:
        import traceback
        fails.append({'step': step, 'form': 'driver', 'what': 'driver-exception', 'detail': traceback.format_exc()[-600:]})
print(json.dumps({'fails': fails, 'ncalls': ncalls}))
'''


def run_unit(case):
    d = case['dir']
    b = cxx.Builder(d)
    udir = b.unit_dir('u%d' % case['idx'])
    try:
        if case['unit'].get('special'):
            mod, plan = special_unit()
        else:
            mod, plan = build_unit(case['unit'])
            top = case['unit'].get('top', [''])
            if len(top) > 1:
                # python paths are relative to the top namespace; the support namespace gt is then the module itself
                strip = '.'.join(top[1:])
                for st in plan:
                    for key in ('cls', 'mod'):
                        if key in st:
                            v = st[key]
                            st[key] = v[len(strip):].lstrip('.') if v.startswith(strip) else v
                    st['gens'] = [g.replace('enum:' + strip + '.', 'enum:') for g in st['gens']]
                plan.insert(0, {'kind': 'config', 'argcls': 'Arg'})
        text = D.render(mod)
        label = case['unit'].get('label', '?')
        try:
            out = gen.pybind(text, template=cxx.MODULE_TEMPLATE, module_name='mod', submodules=[],
                             top=case['unit'].get('top', ['']))
        except Exception as e:
            return {'viol': [{'sig': 'C04|%s|generator-exception|%s' % (label, type(e).__name__),
                              'msg': '%s: %s\n--- input ---\n%s' % (type(e).__name__, str(e)[:300], text)}]}
        hdr, _ = cxx.mock_header(mod[1:])
        # objId is the harness's own accessor: it must not appear in the trace
        with open(os.path.join(udir, 'mock.h'), 'w') as f:
            f.write(hdr)
        with open(os.path.join(udir, 'tu.cpp'), 'w') as f:
            f.write(out)
        b.check_mock(udir)
        rc, err, so = b.build_module(udir, 'mod')
        if rc != 0:
            errs = cxx.first_errors(err)
            return {'viol': [{'sig': 'C04|%s|does-not-compile' % label,
                              'msg': 'generated module does not compile:\n%s\n--- input ---\n%s' % ('\n'.join(errs), text)}]}
        with open(os.path.join(udir, 'plan.json'), 'w') as f:
            json.dump(plan, f)
        with open(os.path.join(udir, 'driver.py'), 'w') as f:
            f.write(DRIVER)
        r = subprocess.run([sys.executable, os.path.join(udir, 'driver.py'), udir, os.path.join(udir, 'plan.json')],
                           capture_output=True, text=True, timeout=600)
        if r.returncode != 0:
            raise RuntimeError('driver crashed: ' + r.stderr[-1500:])
        res = json.loads(r.stdout.strip().split('\n')[-1])
        viol = []
        for f in res['fails']:
            st = f['step']
            sig = 'C04|%s|%s|%s|%s|%s' % (label, f['what'], st.get('kind'), st.get('pat', st.get('name', st.get('op', ''))), f['form'])
            viol.append({'sig': sig, 'msg': '%s in form %s of %s: %s\n--- input (excerpt) ---\n%s'
                                           % (f['what'], f['form'], json.dumps(st)[:400], f['detail'], _excerpt(text, st))})
        return {'viol': viol, 'ncalls': res['ncalls'], 'nsteps': len(plan)}
    finally:
        shutil.rmtree(udir, ignore_errors=True)


def _quiet_objid(hdr):
    import re
    return re.sub(r'int objId\(\) const \{[^}]*\}', 'int objId() const { return this->oid_; }', hdr)


def _excerpt(text, st):
    name = st.get('name') or st.get('cls', '').split('.')[-1]
    lines = [l for l in text.split('\n') if name and name in l]
    return '\n'.join(lines[:4])


def units(thorough):
    cs = callables()
    out = []
    for kind in KINDS:
        scopes = ['gt', 'gt::inner', ''] if thorough else (['gt'] if kind != 'function' else ['gt', 'gt::inner', ''])
        if kind in ('method', 'static') and not thorough:
            scopes = ['gt', 'gt::inner']
        for sc in scopes:
            out.append({'kind': kind, 'scope': sc, 'callables': cs, 'label': '%s@%s' % (kind, sc or 'global')})
    # a non-root top namespace: gt becomes the module itself, gt::inner the submodule inner
    for kind in ('function', 'static', 'method', 'ctor'):
        for sc in ('gt', 'gt::inner'):
            out.append({'kind': kind, 'scope': sc, 'callables': cs[:12] + cs[-14:], 'top': ['', 'gt'],
                        'label': '%s@%s/top=gt' % (kind, sc)})
    out.append({'special': True, 'label': 'special'})
    return out


def replay(case):
    d = gen.mkdtemp('c04r')
    try:
        b = cxx.Builder(d)
        b.build_pch()
        return run_unit(dict(case, dir=d))['viol']
    finally:
        shutil.rmtree(d, ignore_errors=True)


def run(ctx):
    d = gen.mkdtemp('c04')
    try:
        b = cxx.Builder(d)
        b.build_pch()
        cases = [{'unit': u, 'dir': d, 'idx': i} for i, u in enumerate(units(ctx.thorough))]
        res = ctx.map(run_unit, cases, chunksize=1)
        ncalls = sum(r.get('ncalls', 0) for _, r in res)
        nsteps = sum(r.get('nsteps', 0) for _, r in res)
        return {
            'evaluations': ncalls,
            'distinct_nontrivial': nsteps,
            'rule': 'callables = {12 argument patterns x every trailing default mask} + {13 return shapes}, for each of '
                    'method / const method / static / free function / constructor, in scopes %s, plus a unit with overload '
                    'sets, class/method/function templates with explicit arguments, 30 operators, properties, enumerators, '
                    'inheritance and variables; each binding is called positionally, with reversed keywords, mixed, with every '
                    'defaulted suffix omitted, with one extra argument and (methods) without instance; evaluations = executed '
                    'calls, distinct_nontrivial = distinct bindings exercised'
                    % ('gt, gt::inner, global' if ctx.thorough else 'gt (+gt::inner, global for some kinds)'),
            'samples': [D.render(build_unit({'kind': 'method', 'scope': 'gt', 'callables': callables()[:6]})[0])],
            'exhaustive': True,
            'translation_units_built_and_imported': len(cases),
        }
    finally:
        shutil.rmtree(d, ignore_errors=True)
