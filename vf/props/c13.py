"""C13 — instantiations are independent of each other and of parameter spelling (differential exploration).

For every templated declaration of a small family and every ordered selection S (subset + permutation) of its
instantiation list, the generated blocks for argument x (pybind registration, MATLAB classdef / function file,
id-normalised MEX routines) must be identical to those generated from `template<T={x}>` alone.  Consistently
renaming the template parameters must change nothing, and neither must repeating the instantiation on fresh
parses or processing other modules first.  No hand-written expectation is involved.
"""
import itertools
import re

from vf import dialect as D
from vf import gen
from vf.dialect import T, arg, single, pair

ID = 'C13'
LEVEL = 'exploration'
ASSUMPTIONS = [
    'MATLAB gateway ids are normalised through the routine they dispatch to (ids legitimately shift)',
    'differential oracle: the single-instantiation output is the reference for every larger list',
]

CONC = [T('double'), T('ns::Pose'), T('Cam', t=[T('ns::Cal')]), T('size_t'),
        # (index 4, 5: used by the typedef variants only) two types that differ in their namespace only
        T('left::Sample'), T('right::Sample')]
UCONC = [T('int'), T('ns::Rot')]


def decl_variants(P='T', U='U'):
    V = 'std::vector'

    def body(name, params):
        p0 = params[0]
        pl = params[-1]
        return [
            D.ctor(name, [arg(T(p0, 1, '&'), 'a'), arg(T(pl), 'v')]),
            D.ctor(name, []),
            D.method(single(T(p0)), 'get', [arg(T('int'), 'i', '0')], 1),
            D.method(single(T('void')), 'set', [arg(T(V, 1, '&', [T(p0, 0, '*')]), 'vals'), arg(T(pl, 1, '&'), 'x')]),
            D.method(pair(T(p0), T('ns::Other', 0, '*')), 'both', []),
            D.method(single(T(p0 + '::Value')), 'scoped', [arg(T(p0 + '::Value', 1, '&'), 's')]),
            D.method(single(T(pl + '::Jacobian')), 'scopedLast', [arg(T(pl + '::Jacobian', 1, '&'), 'j')]),
            D.static(single(T('This')), 'Create', [arg(T(pl), 'seed')]),
            D.prop(T(p0), 'field'),
            D.op(single(T('This')), '+', [arg(T('This', 1, '&'), 'o')]),
            D.enum('Mode', ['FAST', 'SLOW']),
            D.method(single(T('void')), 'setMode', [arg(T('This::Mode', 1, '&'), 'm')]),
            D.method(single(T('gt::This::Mode')), 'getMode', [], 1),
            D.prop(T('gt::This::Mode'), 'mode'),
            D.dunder('len'), D.dunder('contains', [arg(T(p0, 1, '&'), 'key')]), D.dunder('iter'),
        ]
    out = {}
    out['class1'] = ([P], lambda insts: [D.ns('gt', [D.enum('Before', ['A']),
                                                       D.cls('Foo', body('Foo', [P]), tpl=[D.tparam(P, insts[0])], v=1,
                                                             b=T('gt::Base', t=[T(P)])),
                                                       D.cls('Plain', [D.ctor('Plain')])])])
    out['class2'] = ([P, U], lambda insts: [D.ns('gt', [D.cls('Foo', body('Foo', [P, U]),
                                                              tpl=[D.tparam(P, insts[0]), D.tparam(U, insts[1])])])])
    out['func1'] = ([P], lambda insts: [D.func(single(T(V, t=[T(P)])), 'fun',
                                               [arg(T(P, 1, '&'), 'a'), arg(T(P + '::Value'), 'b'), arg(T('int'), 'k', '3')],
                                               tpl=[D.tparam(P, insts[0])]),
                                        D.func(single(T('void')), 'plain', [])])
    # the same function name, instantiation and arity as func1, another signature (for the histories)
    out['func1b'] = ([P], lambda insts: [D.func(single(T(P)), 'fun',
                                                [arg(T(P + '::Value'), 'first'), arg(T(P, 1, '&'), 'second'), arg(T('double'), 'third', '0.5')],
                                                tpl=[D.tparam(P, insts[0])]),
                                         # two overloads of one function template with the same arity
                                         D.func(single(T('int')), 'ovt', [arg(T(P, 1, '&'), 'a'), arg(T('int'), 'n')], tpl=[D.tparam(P, insts[0])]),
                                         D.func(single(T(P)), 'ovt', [arg(T('string'), 's'), arg(T(P, 0, '*'), 'p')], tpl=[D.tparam(P, insts[0])])])
    out['func2'] = ([P, U], lambda insts: [D.ns('gt', [D.func(pair(T(P), T(U)), 'fun2',
                                                             [arg(T(P, 0, '*'), 'a'), arg(T(U, 1, '&'), 'b')],
                                                             tpl=[D.tparam(P, insts[0]), D.tparam(U, insts[1])])])])
    out['member'] = ([P], lambda insts: [D.ns('gt', [D.cls('Foo', [
        D.ctor('Foo', [arg(T(P), 'a')]),
        D.method(single(T(U)), 'conv', [arg(T(P, 1, '&'), 'a'), arg(T(V, t=[T(U)]), 'b')], tpl=[D.tparam(U, UCONC)]),
        D.static(single(T(P)), 'make', [arg(T(U, 1, '&'), 'u')], tpl=[D.tparam(U, UCONC)]),
        D.ctor('Foo', [arg(T(U), 'u'), arg(T(P), 'a')], tpl=[D.tparam(U, UCONC)]),
        D.method(single(T('W2')), 'pick', [arg(T(U, 1, '&'), 'u'), arg(T('W2'), 'w')], tpl=[D.tparam(U, UCONC), D.tparam('W2', [T('string')])]),
        D.method(single(T('V9')), 'after', [arg(T('V9', 1, '&'), 'u'), arg(T(P), 'p')], tpl=[D.tparam('V9', [T('double')])]),
        D.static(single(T('W2')), 'spick', [arg(T(U), 'u'), arg(T('W2', 1, '&'), 'w')], tpl=[D.tparam(U, UCONC), D.tparam('W2', [T('string')])]),
        D.static(single(T('V9')), 'safter', [arg(T('V9'), 'u')], tpl=[D.tparam('V9', [T('double')])]),
    ], tpl=[D.tparam(P, insts[0])])])])
    # typedef'd instantiations: one typedef per selected argument, of a foreign (forward-declared) template, of a class
    # template without list, and of a function template without list
    out['fwdtd'] = ([P], lambda insts: [D.ns('gt', [D.fwd('Ext')] + [D.typedef(T('gt::Ext', t=[x]), tdname('Ext', x)) for x in insts[0]] +
                                                     [D.cls('Plain', [D.ctor('Plain')])])])
    out['classtd'] = ([P], lambda insts: [D.ns('gt', [D.cls('Box', [D.ctor('Box', [arg(T(P, 1, '&'), 'a')]), D.method(single(T(P)), 'get', [], 1),
                                                                     D.method(single(T(P + '::Value')), 'scoped', [arg(T(V, 1, '&', [T(P)]), 'vals')]),
                                                                     D.static(single(T('This')), 'Create', [])], tpl=[D.tparam(P)])] +
                                                       [D.typedef(T('gt::Box', t=[x]), tdname('Box', x)) for x in insts[0]])])
    out['functd'] = ([P], lambda insts: [D.ns('gt', [D.func(single(T(P)), 'mk', [arg(T(P, 1, '&'), 'a'), arg(T(V, t=[T(P)]), 'b')], tpl=[D.tparam(P)])] +
                                                      [D.typedef(T('gt::mk', t=[x]), tdname('mk', x)) for x in insts[0]])])
    return out


ALIAS = {'left::Sample': 'SampleL', 'right::Sample': 'SampleR'}


def tdname(base, x):
    return base + (ALIAS.get(D.cpp(x)) or cap(iname(x)))


def cap(n):
    return n[:1].upper() + n[1:]


def iname(t):
    n = t['q'].split('::')[-1]
    for p in t['t'] or []:
        n += iname(p)
    return n


def gen_outputs(text):
    py = gen.pybind(text)
    sec = gen.pybind_sections(py)
    recs = gen.scan_pybind(sec['WRAPPED'])
    blocks = {}
    for r in recs:
        if r['k'] in ('class', 'enum'):
            blocks.setdefault('py:%s:%s' % (r['k'], r['py']), []).append(r['stmt'])
        elif r['k'] == 'function':
            blocks.setdefault('py:function:%s' % r.get('py'), []).append(gen.ws(r['raw']))
    tree = gen.matlab(text)
    cppname = [k for k in tree if k.endswith('_wrapper.cpp')][0]
    mex = gen.scan_mex(tree[cppname])
    id2name = {}
    for cid, calls in mex['cases']:
        id2name[cid] = re.sub(r'_\d+$', '', calls[0]) if calls else '?'
    for path, content in tree.items():
        if path.endswith('.m'):
            norm = re.sub(r'\bmod_wrapper\((\d+)', lambda m: 'mod_wrapper(<%s>' % id2name.get(int(m.group(1)), 'NOCASE'), content)
            blocks['m:' + path] = [norm]
    for name in mex['routine_order']:
        base = re.sub(r'_\d+$', '', name)
        blocks.setdefault('mex:' + base, [])
    seen = {}
    for name in mex['routine_order']:
        base = re.sub(r'_\d+$', '', name)
        seen[name] = seen.get(name, 0)
        body = mex['routines'][name][seen[name]]
        seen[name] += 1
        blocks['mex:' + base].append(gen.ws(body))
    for cpp_t, cname, _, _ in mex['collectors']:
        blocks['mexcollector:' + cname] = [cpp_t]
    for a, b in mex['typedefs']:
        if not b.startswith('Collector_'):
            blocks['mextypedef:' + b] = [a]
    return py, tree, blocks


def relevant(blocks, inst_names):
    """Blocks that belong to the instantiation(s) named by inst_names (Foo<Suffix>, fun<Suffix>)."""
    out = {}
    for k, v in blocks.items():
        kind, _, rest = k.partition(':')
        leaf = rest.split(':')[-1].split('/')[-1]
        leaf = re.sub(r'\.m$', '', leaf)
        for n in inst_names:
            if leaf == n or leaf.startswith(n + '_') or leaf.startswith('gt' + n + '_') or leaf == 'gt' + n:
                out[k] = v
    return out


_alone_cache = {}


def alone(variant, combo_idx):
    key = (variant, tuple(combo_idx))
    if key not in _alone_cache:
        params, build = decl_variants()[variant]
        insts = [[pool(i)[j]] for i, j in enumerate(combo_idx)]
        text = D.render(build(insts))
        _alone_cache[key] = gen_outputs(text)[2]
    return _alone_cache[key]


def pool(i):
    return CONC if i == 0 else UCONC


TD_VARIANTS = ('fwdtd', 'classtd', 'functd')


def check_select(case):
    """case: variant, sel = list (per parameter) of index lists into the pools."""
    variant, sel = case['variant'], case['sel']
    params, build = decl_variants()[variant]
    insts = [[pool(i)[j] for j in idxs] for i, idxs in enumerate(sel)]
    text = D.render(build(insts))
    viol = []
    try:
        _, _, blocks = gen_outputs(text)
    except Exception as e:
        return {'viol': [{'sig': 'C13|%s|exception|%s' % (variant, type(e).__name__),
                          'msg': '%s: %s\n--- input ---\n%s' % (type(e).__name__, str(e)[:300], text)}]}
    base = {'class1': 'Foo', 'class2': 'Foo', 'func1': 'fun', 'func1b': 'fun', 'func2': 'fun2', 'member': 'Foo', 'fwdtd': 'Ext', 'classtd': 'Box',
            'functd': 'mk'}[variant]
    ncmp = 0
    for combo in itertools.product(*sel):
        if variant in TD_VARIANTS:
            name = tdname(base, pool(0)[combo[0]])
        else:
            name = base + ''.join(cap(iname(pool(i)[j])) for i, j in enumerate(combo))
        ref = relevant(alone(variant, combo), [name])
        got = relevant(blocks, [name])
        if not ref:
            viol.append({'sig': 'C13|%s|no-reference-blocks' % variant, 'msg': 'no blocks for %s alone\n%s' % (name, text)})
        for k in sorted(ref):
            ncmp += 1
            if got.get(k) != ref[k]:
                viol.append({'sig': 'C13|%s|select|%s' % (variant, k.split(':')[0]),
                             'msg': 'block %s for %s differs between list %s and the single-instantiation run:\n'
                                    '  alone  : %s\n  in list: %s\n--- input ---\n%s'
                                    % (k, name, [[D.cpp(x) for x in l] for l in insts], _first_diff(ref[k], got.get(k)), '', text)})
        for k in sorted(set(got) - set(ref)):
            viol.append({'sig': 'C13|%s|select|extra-block' % variant, 'msg': 'extra block %s for %s\n%s' % (k, name, text)})
    return {'viol': viol, 'ncmp': ncmp}


def _first_diff(a, b):
    if b is None:
        return '%r vs <missing>' % (a[0][:200] if a else a)
    for x, y in zip(a, b):
        if x != y:
            i = next((i for i, (c, d) in enumerate(zip(x, y)) if c != d), min(len(x), len(y)))
            return '...%s  vs  ...%s' % (x[max(0, i - 60):i + 80], y[max(0, i - 60):i + 80])
    return 'lengths %d vs %d' % (len(a), len(b))


RENAMES = [('ThisPose', 'BaseOfThis'), ('This_', 'NotThis'), ('T', 'POINT'), ('X', 'POINX'), ('Q', 'R'), ('ZZ', 'YY'), ('T9', 'U9'), ('_t', '_u'), ('U', 'T'), ('Foo_', 'fun_'), ('a', 'b'), ('Valu', 'Othe'), ('e', 'r')]


def check_rename(case):
    variant, (p, u) = case['variant'], case['rename']
    sel = case['sel']
    insts = [[pool(i)[j] for j in idxs] for i, idxs in enumerate(sel)]
    t0 = D.render(decl_variants()[variant][1](insts))
    t1 = D.render(decl_variants(p, u)[variant][1](insts))
    viol = []
    try:
        o0 = gen_outputs(t0)
        o1 = gen_outputs(t1)
    except Exception as e:
        return {'viol': [{'sig': 'C13|%s|rename|exception|%s' % (variant, type(e).__name__),
                          'msg': '%s: %s\n--- input ---\n%s' % (type(e).__name__, str(e)[:300], t1)}]}
    if o0[0] != o1[0]:
        viol.append({'sig': 'C13|%s|rename|pybind' % variant,
                     'msg': 'pybind output changes when parameters are renamed to %s,%s: %s\n--- input ---\n%s'
                            % (p, u, _first_diff([o0[0]], [o1[0]]), t1)})
    if o0[1] != o1[1]:
        bad = [k for k in sorted(set(o0[1]) | set(o1[1])) if o0[1].get(k) != o1[1].get(k)]
        viol.append({'sig': 'C13|%s|rename|matlab' % variant,
                     'msg': 'MATLAB output %s changes when parameters are renamed to %s,%s: %s\n--- input ---\n%s'
                            % (bad[:3], p, u, _first_diff([o0[1].get(bad[0]) or ''], [o1[1].get(bad[0]) or '']), t1)})
    return {'viol': viol, 'ncmp': 2}


def check_history(case):
    """Instantiate/wrap `variant` after having processed `before` (0..2 other modules) k times."""
    variant, before, reps = case['variant'], case['before'], case['reps']
    sel = case['sel']
    insts = [[pool(i)[j] for j in idxs] for i, idxs in enumerate(sel)]
    text = D.render(decl_variants()[variant][1](insts))
    viol = []
    try:
        for b in before:
            bi = [[pool(i)[j] for j in idxs] for i, idxs in enumerate(case['bsel'])][:len(decl_variants()[b][0])]
            gen_outputs(D.render(decl_variants()[b][1](bi)))
        outs = [gen_outputs(text) for _ in range(reps)]
    except Exception as e:
        return {'viol': [{'sig': 'C13|%s|history|exception|%s' % (variant, type(e).__name__),
                          'msg': '%s: %s\n--- input ---\n%s' % (type(e).__name__, str(e)[:300], text)}]}
    ref = case.get('ref')
    for i, o in enumerate(outs):
        if (o[0], o[1]) != (outs[0][0], outs[0][1]):
            viol.append({'sig': 'C13|%s|history|repeat' % variant,
                         'msg': 'repetition %d of the same instantiation differs from the first\n--- input ---\n%s' % (i, text)})
    import hashlib
    h = hashlib.sha256((outs[0][0] + repr(sorted(outs[0][1].items()))).encode()).hexdigest()
    return {'viol': viol, 'hash': h, 'ncmp': reps}


def replay(case):
    return {'select': check_select, 'rename': check_rename, 'history': check_history}[case['mode']](case)['viol']


def run(ctx):
    n = 4 if ctx.thorough else 3
    rot = ctx.seed % n
    idx = list(range(n))
    idx = idx[rot:] + idx[:rot]
    selections = []
    for k in range(1, n + 1):
        for s in itertools.permutations(idx, k):
            selections.append(list(s))
    cases = []
    for variant, (params, _) in decl_variants().items():
        for s in selections:
            if len(params) == 1:
                cases.append({'mode': 'select', 'variant': variant, 'sel': [s]})
            else:
                for us in ([0], [0, 1], [1, 0]):
                    cases.append({'mode': 'select', 'variant': variant, 'sel': [s, us]})
    for variant in TD_VARIANTS:
        for s_ in ([4], [5], [4, 5], [5, 4], [1, 4, 5], [5, 0, 4]):
            cases.append({'mode': 'select', 'variant': variant, 'sel': [s_]})
    res = ctx.map(check_select, cases)
    ncmp = sum(r.get('ncmp', 0) for _, r in res)
    rcases = []
    for variant, (params, _) in decl_variants().items():
        for ren in RENAMES:
            sel = [idx[:2]] + ([[0, 1]] if len(params) > 1 else [])
            rcases.append({'mode': 'rename', 'variant': variant, 'rename': list(ren), 'sel': sel})
    res2 = ctx.map(check_rename, rcases)
    hcases = []
    variants = list(decl_variants())
    depth = 2 if ctx.thorough else 1
    for variant in variants:
        plen = len(decl_variants()[variant][0])
        sel = [idx[:2]] + ([[0, 1]] if plen > 1 else [])
        for k in range(0, depth + 1):
            for before in itertools.product(variants, repeat=k):
                hcases.append({'mode': 'history', 'variant': variant, 'before': list(before), 'reps': 3 if not before else 1,
                               'sel': sel, 'bsel': [[idx[1], idx[0]], [1, 0]]})
    res3 = ctx.map(check_history, hcases)
    # all histories of one variant must produce the same output
    byv = {}
    for c, r in res3:
        if 'hash' in r:
            byv.setdefault(c['variant'], {}).setdefault(r['hash'], []).append(c)
    for v, hs in byv.items():
        if len(hs) > 1:
            fresh = [h for h, cs in hs.items() if any(not c['before'] for c in cs)]
            for h, cs in hs.items():
                if h not in fresh:
                    ctx.add_violation('C13|%s|history|depends-on-earlier-modules' % v,
                                      'output for %s differs after processing %s first' % (v, cs[0]['before']), cs[0])
    allc = cases + rcases + hcases
    return {
        'evaluations': len(allc),
        'distinct_nontrivial': len({repr(sorted(c.items())) for c in allc}),
        'rule': 'every ordered selection (subset+permutation) of a %d-element instantiation list for 5 templated '
                'declaration variants (x 3 selections of the second parameter for 2-parameter headers), every renaming '
                'from a list of %d parameter spellings (incl. swapping T/U), every history of <=%d earlier modules and 3 '
                'repetitions; per-instantiation blocks compared with the single-instantiation run'
                % (n, len(RENAMES), depth),
        'samples': [D.render(decl_variants()['class1'][1]([[CONC[0], CONC[1]]]))],
        'exhaustive': True,
        'blocks_compared': ncmp,
    }
