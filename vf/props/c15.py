"""C15 — ignoring or removing a class affects that class only (differential exploration).

For modules of <= 2 (3) entity kinds in 4 namespace scopes and every class c in them (global or namespaced,
templated instantiation or not): three runs per generator -- M, M with c on the ignore list (spelled as each
generator documents), M with c's declaration deleted.  Oracle: outputs(M, ignore c) == outputs(M - c) byte for
byte, and every other entity's block (pybind registration; MATLAB file, id-normalised routines, collector, RTTI
entry) equals its block in outputs(M).
"""
import copy
import itertools
import re

from vf import dialect as D
from vf import gen
from vf.props import c10
from vf.props.c13 import relevant  # noqa: F401  (block helpers)

ID = 'C15'
LEVEL = 'exploration'
ASSUMPTIONS = [
    'ignore entries are spelled as the generators document: the C++ name for pybind (a::b::C, a::T<double>), the namespaced instantiated name for MATLAB (a::b::C, a::TDouble)',
    'target classes are not referred to by any other declaration of the module (the statement requires this)',
    'MATLAB gateway ids are normalised through the dispatch table when blocks of different runs are compared',
]

TARGETS = {   # entity kind -> list of (class name stem, pybind cpp suffix, matlab name suffix, how to delete)
    'class_full': [('Cf', '', '', 'class')],
    'tclass': [('Tc', '<double>', 'Double', 'inst')],
    'tclass2': [('Tw', '<int, double>', 'IntDouble', 'inst')],     # a C++ name with a blank in it
    'fwdtd': [('Fw', '<int>', 'Int', 'typedef')],                  # a typedef'd forward declaration of a foreign template
    'enumclass': [('Ce', '', '', 'class')],
    'derived': [('De', '', '', 'class')],
    'noctor': [('Nc', '', '', 'class')],
    'serial': [('Se', '', '', 'class')],
    'samename': [('Same', '', '', 'class')],     # the same class name exists in every scope
}


def delete_target(mod, path, cname, how):
    mod = copy.deepcopy(mod)

    def rec(content, p):
        out = []
        for d in content:
            if d['k'] == 'ns':
                d['c'] = rec(d['c'], p + [d['n']])
                out.append(d)
            elif d['k'] == 'typedef' and how == 'typedef' and d['t']['q'].split('::')[-1] == cname and p == path:
                pass        # the typedef goes, the forward declaration stays
            elif d['k'] == 'class' and d['n'] == cname and p == path:
                if how == 'inst':
                    d['tpl'][0]['i'] = d['tpl'][0]['i'][1:]
                    out.append(d)
            else:
                out.append(d)
        return out
    return rec(mod, [])


def py_blocks(text, ignore):
    out = gen.pybind(text, ignore=ignore, serialization=True)
    sec = gen.pybind_sections(out)
    blocks = {}
    for r in gen.scan_pybind(sec['WRAPPED']):
        if r['k'] in ('class', 'enum'):
            blocks.setdefault('%s:%s' % (r['k'], r['cpp']), []).append(r['stmt'])
        elif r['k'] == 'function':
            blocks.setdefault('function:%s:%s' % (r['module'], r.get('py')), []).append(gen.ws(r['raw']))
        elif r['k'] == 'attr':
            blocks.setdefault('attr:%s:%s' % (r['module'], r['py']), []).append(r['stmt'])
        elif r['k'] == 'submodule':
            blocks.setdefault('submodule:%s' % r['var'], []).append(r['stmt'])
        else:
            blocks.setdefault('other', []).append(r['stmt'])
    blocks['includes'] = [sec['INCLUDES']]
    for line in sec['EXPORT'].split('\n'):
        if line.strip():
            blocks.setdefault('export:' + line.strip(), []).append(line.strip())
    return out, blocks


def ml_blocks(text, ignore):
    tree = gen.matlab(text, ignore=ignore, serialization=True)
    mex = gen.scan_mex(tree['mod_wrapper.cpp'])
    id2name = {cid: (re.sub(r'_\d+$', '', calls[0]) if calls else '?') for cid, calls in mex['cases']}
    blocks = {}
    for path, content in tree.items():
        if path.endswith('.m'):
            blocks['m:' + path] = [re.sub(r'\bmod_wrapper\((\d+)', lambda m: 'mod_wrapper(<%s>' % id2name.get(int(m.group(1)), 'NOCASE'), content)]
    seen = {}
    for name in mex['routine_order']:
        base = re.sub(r'_\d+$', '', name)
        i = seen.get(name, 0)
        seen[name] = i + 1
        blocks.setdefault('mex:' + base, []).append(gen.ws(mex['routines'][name][i]))
    for cpp_t, cname, _, _ in mex['collectors']:
        blocks['collector:' + cname] = [cpp_t]
    for a, b, c, d in mex['delete_blocks']:
        blocks['cleanup:' + a] = [a]
    for cpp_t, mname in mex['rtti']:
        blocks['rtti:' + mname] = [cpp_t]
    return tree, blocks


def belongs(key, names):
    """Does block `key` belong to one of the (instantiated) class names?"""
    for n in names:
        if re.search(r'(^|[^A-Za-z0-9])(\w*?)%s($|[^A-Za-z0-9])' % re.escape(n), key):
            return True
    return False


_validated = [False]


def belongs_same(key, path):
    """Blocks of the class `Same` declared in namespace `path` (other scopes have a class of the same name)."""
    qual = '::'.join(path + ['Same'])
    tag = ''.join(path) + 'Same'
    pkg = ''.join('+%s/' % p for p in path)
    kind, _, rest = key.partition(':')
    if kind in ('class', 'enum'):
        return rest == qual or rest.startswith(qual + '::')
    if kind == 'export':
        return qual in rest and ('::' + qual) not in rest
    if kind == 'm':
        return rest == pkg + 'Same.m' or rest.startswith(pkg + '+Same/')
    if kind == 'mex':
        return rest.startswith(tag + '_')
    if kind in ('collector', 'cleanup', 'rtti'):
        return rest == tag
    return False


def check_case(case):
    # parse each text once per worker (deep copies are handed out); validated once per process against a fresh parse
    if not _validated[0]:
        mod0 = c10.build(case['kinds'])
        t0 = D.render(mod0)
        gen.disable_parse_cache()
        a = gen.pybind(t0), gen.matlab(t0)
        gen.enable_parse_cache()
        b = gen.pybind(t0), gen.matlab(t0)
        if a != b:
            raise RuntimeError('parse cache is not faithful (harness problem)')
        _validated[0] = True
    gen.enable_parse_cache()
    kinds, path, stem, pysuf, mlsuf, how = case['kinds'], case['path'], case['stem'], case['pysuf'], case['mlsuf'], case['how']
    mod = c10.build(kinds)
    cname = stem + c10.tag(path) if stem != 'Same' else 'Same'
    text_m = D.render(mod)
    mod_del = delete_target(mod, path, cname, how)
    py_ign = ['::'.join(path + [cname]) + pysuf]
    ml_ign = ['::'.join(path + [cname + mlsuf])]
    second = case.get('second')      # a second class to ignore, declared directly after / near the first one
    if second:
        s2, py2, ml2, how2 = second
        c2 = s2 + c10.tag(path)
        mod_del = delete_target(mod_del, path, c2, how2)
        py_ign.append('::'.join(path + [c2]) + py2)
        ml_ign.append('::'.join(path + [c2 + ml2]))
    text_del = D.render(mod_del)
    scope = ('global' if not path else 'depth%d' % len(path)) + ('|two-targets' if second else '')
    viol = []
    ctxs = 'kinds=%s target=%s (pybind ignore %r, matlab ignore %r)' % (kinds, cname, py_ign, ml_ign)

    def add(sig, msg):
        viol.append({'sig': sig, 'msg': '%s\n%s\n--- input ---\n%s' % (msg, ctxs, text_m)})
    own = [cname + mlsuf, cname + pysuf, cname + pysuf.replace(' ', '')] if how in ('inst', 'typedef') else [cname]
    if second:
        own = own + ([c2 + ml2, c2 + py2, c2 + py2.replace(' ', '')] if how2 in ('inst', 'typedef') else [c2])
    if cname == 'Same':
        own = None    # qualified matching, see belongs_same
    for g, blocks_fn, ign in (('pybind', py_blocks, py_ign), ('matlab', ml_blocks, ml_ign)):
        try:
            full, b_full = blocks_fn(text_m, [])
            ig, b_ign = blocks_fn(text_m, list(ign))
            de, b_del = blocks_fn(text_del, [])
        except Exception as e:
            add('C15|%s|exception|%s|%s|%s' % (g, type(e).__name__, stem, scope),
                '%s generator raised %s: %s' % (g, type(e).__name__, str(e)[:300]))
            continue
        if ig != de:
            if ig == full:
                add('C15|%s|ignore-has-no-effect|%s|%s' % (g, stem, scope),
                    '%s: putting %r on the ignore list changes nothing' % (g, ign))
            else:
                keys = [k for k in sorted(set(b_ign) | set(b_del)) if b_ign.get(k) != b_del.get(k)]
                add('C15|%s|ignore-differs-from-delete|%s|%s' % (g, stem, scope),
                    '%s: output with %r ignored differs from output with the declaration deleted; differing blocks: %s'
                    % (g, ign, keys[:6]))
        # every other entity's block is unchanged by the deletion
        for k in sorted(b_full):
            if own is None and k == 'mex:Same_upcastFromVoid':
                continue   # up-cast routines are named after the bare class name: one block for all classes called Same
            if k in ('other',) or (belongs(k, own) if own is not None else belongs_same(k, path)):
                continue
            if b_del.get(k) != b_full[k]:
                add('C15|%s|unrelated-block-changed|%s|%s|%s' % (g, k.split(':')[0], stem, scope),
                    '%s: deleting %s changes the block %s of an unrelated entity' % (g, cname, k))
        for k in sorted(set(b_del) - set(b_full)):
            add('C15|%s|new-block-after-delete|%s' % (g, stem), '%s: deleting %s creates block %s' % (g, cname, k))
        left = [k for k in b_del if k != 'mex:Same_upcastFromVoid' and (belongs(k, own) if own is not None else belongs_same(k, path)) and not (how in ('inst', 'typedef'))
                and not (second and how2 in ('inst', 'typedef'))]
        if left:
            add('C15|%s|artefacts-left|%s' % (g, stem), '%s: artefacts of the deleted class remain: %s' % (g, left[:5]))
    return {'viol': viol}


def replay(case):
    return check_case(case)['viol']


def run(ctx):
    cases = []
    kinds_all = c10.KINDS
    combos = [[k] for k in TARGETS]
    for k in TARGETS:
        for j, k2 in enumerate(kinds_all):
            if k2 != k:
                # quick tier: both orders when the other kind is a target kind too, else one (alternating) order
                if ctx.thorough or k2 in TARGETS or j % 2 == 0:
                    combos.append([k, k2])
                if ctx.thorough or k2 in TARGETS or j % 2 == 1:
                    combos.append([k2, k])
    if ctx.thorough:
        for k in TARGETS:
            for k2, k3 in itertools.combinations([x for x in kinds_all if x != k], 2):
                combos.append([k2, k, k3])
    for kinds in combos:
        for k in kinds:
            for stem, pysuf, mlsuf, how in TARGETS.get(k, []):
                for path in c10.SCOPES:
                    cases.append({'kinds': kinds, 'path': path, 'stem': stem, 'pysuf': pysuf, 'mlsuf': mlsuf, 'how': how})
    # two classes ignored at once: the targets of two kinds that follow each other in the module
    tk = list(TARGETS)
    for a in tk:
        for b in tk:
            if a != b and 'samename' not in (a, b):
                for path in c10.SCOPES:
                    sa, sb = TARGETS[a][0], TARGETS[b][0]
                    cases.append({'kinds': [a, b], 'path': path, 'stem': sa[0], 'pysuf': sa[1], 'mlsuf': sa[2], 'how': sa[3],
                                  'second': list(sb)})
    # de-duplicate (a combo may list the target kind once only, but be safe)
    seen = set()
    uniq = []
    for c in cases:
        key = (tuple(c['kinds']), tuple(c['path']), c['stem'], tuple(c.get('second') or ()))
        if key not in seen:
            seen.add(key)
            uniq.append(c)
    res = ctx.map(check_case, uniq, chunksize=1)
    return {
        'evaluations': len(uniq) * 6,
        'distinct_nontrivial': len(uniq),
        'rule': 'modules of 1..%d entity kinds (%d kinds, 4 namespace scopes each); every class of %d target kinds at every scope '
                '(global, depth 1..3; for templated classes one instantiation) as the class to ignore / delete; 3 runs per '
                'generator; evaluations = generator runs, distinct_nontrivial = (module, target) pairs'
                % (3 if ctx.thorough else 2, len(kinds_all) + 1, len(TARGETS)),
        'samples': [{'kinds': uniq[i]['kinds'], 'target': uniq[i]['stem'] + c10.tag(uniq[i]['path'])} for i in (0, len(uniq) // 2)],
        'exhaustive': True,
    }
