"""C01 — the parse tree mirrors the source exactly (bounded-exhaustive exploration).

Three families, each enumerated completely within its bound (DESIGN.md §2 C01):
  types  : every type expression of the universe U(d) in every position that accepts a type
  decls  : every flag/arity/default-mask combination of every declaration and member kind
  order  : every sequence of <= n top-level items at namespace nesting 0..3, and every
           sequence of <= m class members
Oracle: observe(parse(text)) == expected(spec)   (vf.dialect; independent of gtwrap).
"""
import itertools

from vf import dialect as D
from vf.dialect import T, arg, single, pair

ID = 'C01'
LEVEL = 'exploration'
ASSUMPTIONS = [
    'dialect terminals are atomic tokens (multi-word keywords, include header, default expression, std::)',
    'class members are compared in source order per member kind (the tree stores them per kind)',
    'typedef targets, template instantiation lists and base-class names carry no qualifiers in the dialect',
    'identifier pool of ~30 spellings rotated by VERIF_SEED; no claim beyond the stated depth bounds',
]

POOLS = [
    dict(cls=['A', 'Pose3', 'Zq'], ns=['ns', 'gtsam', 'n1', 'n2', 'inner'], tpl=['V', 'Map'],
         kw=['classy', 'constT', 'pairs', 'virtualX', 'int_t', 'voidp', 'staticK', 'templateZ', 'enumX',
             'typedefd', 'namespaceN', 'boolean', 'Thiss', 'const_iterator', 'static_pool_t', 'class_t', 'virtual_base', 'template_arg', 'typedef_t', 'pair_t', 'const_'],
         names=['a', 'b', 'c', 'x1', 'value', 'other'], fn=['f', 'g', 'doIt', 'getValue']),
    dict(cls=['B', 'Rot2', 'Kx'], ns=['m', 'gtsam', 'p1', 'p2', 'deep'], tpl=['W', 'Dict'],
         kw=['class_', 'const_', 'pair1', 'virtual1', 'intx', 'void_', 'static_', 'template_', 'enum_',
             'typedefs', 'namespace_', 'doubleD', 'This_', 'const_iterator', 'static_pool_t', 'class_t', 'virtual_base', 'template_arg', 'typedef_t', 'pair_t'],
         names=['u', 'v', 'w', 'y2', 'key', 'rhs'], fn=['h', 'k', 'run', 'compute']),
    dict(cls=['Cc', 'Point', 'Q9'], ns=['x', 'wrap', 'q1', 'q2', 'leaf'], tpl=['Vec', 'Pr'],
         kw=['classes', 'constant', 'paired', 'virtually', 'integer', 'voided', 'statics', 'templates', 'enums',
             'typedefX', 'namespaces', 'chars', 'ThisX', 'const_iterator', 'static_pool_t', 'class_t', 'virtual_base', 'template_arg', 'typedef_t', 'pair_t', 'const_'],
         names=['i', 'j', 'k', 'z3', 'name', 'lhs'], fn=['p', 'q', 'eval', 'update']),
]

DEFAULTS = ['0', '-9.81', '"a, b"', "'c'", 'ns::P()', '{1, 2}', 'f(1, g(2))', 'V<int>()', 'x[3]',
            'gtsam::Point3(1, 2, 3)', 'std::vector<int>{1, 2}', '1e-3', 'A::B', '"x;y"',
            "Symbol('(', 1)", "Symbol(')', 2)", "Join(\"(\", ')')", "B{'}', \"{\"}", "idx['[']", '"a  b\tc"', "g(\")\", '(')"]

BIN_OPS = ['+', '-', '*', '/', '%', '^', '&', '|', '+=', '-=', '*=', '/=', '%=', '^=', '&=', '|=',
           '<<', '<<=', '>>', '>>=', '==', '!=', '<', '>', '<=', '>=']

QUALS = [(c, m) for c in (0, 1) for m in ('', '*', '@', '&')]


def pool(seed):
    return POOLS[seed % len(POOLS)]


# ------------------------------------------------------------------ family 1: type universe
def atoms(P, reduced=False):
    c = P['cls'][0]
    if reduced:
        return ['int', 'unsigned char', c, '%s::%s::%s' % (P['ns'][2], P['ns'][3], c), P['kw'][1]]
    out = ['int', 'double', 'bool', 'size_t', 'char', 'float', 'unsigned char']
    out += [c, '%s::%s' % (P['ns'][0], c), '%s::%s::%s' % (P['ns'][2], P['ns'][3], P['cls'][1])]
    # custom types whose last component is spelled like a fundamental type
    out += ['std::size_t', 'fixed::int', '%s::double' % P['ns'][0]]
    out += P['kw']
    return out


def universe(P, d, thorough):
    """List of type specs.  d = template nesting depth."""
    u0 = [T(a, c, m) for a in atoms(P) for c, m in QUALS]
    if d == 0:
        return u0
    r0 = [T(a, c, m) for a in atoms(P, True) for c, m in QUALS]
    v, mp = P['tpl']
    heads1 = [v, '%s::%s' % (P['ns'][0], v)]
    out = []
    base = T('int')
    # depth 1: V<x>, ns::V<x> for all reduced x; M<x,int>, M<int,x>; all own qualifiers
    d1 = []
    for c, m in QUALS:
        for h in heads1:
            for x in r0:
                d1.append(T(h, c, m, [x]))
        for x in r0:
            d1.append(T(mp, c, m, [x, base]))
            d1.append(T(mp, c, m, [base, x]))
    if d == 1:
        return d1
    # depth 2: own qualifiers x inner templated argument with <=1 qualifier deviation inside (quick),
    # full inner qualifier product (thorough)
    inner_args = r0 if thorough else [T(a) for a in atoms(P, True)] + [T(P['cls'][0], c, m) for c, m in QUALS]
    d2 = []
    for c, m in QUALS:
        for ic, im in (QUALS if thorough else [(0, ''), (1, ''), (0, '*'), (0, '@'), (0, '&'), (1, '&')]):
            for x in inner_args:
                d2.append(T(v, c, m, [T(v, ic, im, [x])]))
                d2.append(T(mp, c, m, [T('int'), T(heads1[1], ic, im, [x])]))
    if d == 2:
        return d2
    # depth 3 (thorough only): <=2 qualifier deviations along one chain
    d3 = []
    devs = [(0, ''), (1, ''), (0, '*'), (0, '@'), (0, '&')]
    for q1 in devs:
        for q2 in devs:
            for q3 in devs:
                for q4 in QUALS:
                    n_dev = sum(1 for q in (q1, q2, q3) if q != (0, ''))
                    if n_dev > 2:
                        continue
                    for leaf in (P['cls'][0], 'unsigned char', '%s::%s' % (P['ns'][0], P['cls'][1])):
                        d3.append(T(v, q1[0], q1[1], [T(mp, q2[0], q2[1], [T('int'), T(v, q3[0], q3[1],
                                                                                     [T(leaf, q4[0], q4[1])])])]))
    return d3


def strip_q(t):
    return {'c': 0, 'q': t['q'], 'm': '', 't': None if t['t'] is None else [strip_q(p) for p in t['t']]}


def module_for_type(P, t):
    """One module that places type t in every position accepting a type."""
    C = P['cls'][2]
    a, b = P['names'][0], P['names'][1]
    f, g = P['fn'][0], P['fn'][1]
    i = T('int')
    members = [
        D.ctor(C, [arg(t, a)]),
        D.method(single(t), f, [arg(t, a), arg(i, b, '1')], c=1),
        D.static(single(t), g, [arg(i, a), arg(t, b)]),
        D.prop(t, P['names'][2]),
        D.op(single(T(C)), '()', [arg(t, a)]),
        D.dunder('contains', [arg(t, a)]),
    ]
    if t['t'] is None:
        members += [D.method(pair(t, i), P['fn'][2], []), D.method(pair(i, t, std=1), P['fn'][3], [], c=1)]
    else:
        # pair slots that are templated: pair is then an ordinary templated type
        members += [D.method(single(T('pair', t=[t, i])), P['fn'][2], []),
                    D.method(single(T('std::pair', t=[i, t])), P['fn'][3], [], c=1)]
    mod = [D.cls(C, members),
           D.func(single(t), f, [arg(t, a, '{}'), arg(t, b)]),
           D.var(t, P['names'][3]),
           D.ns(P['ns'][0], [D.var(t, P['names'][4], '3'), D.func(pair(i, i), g, [arg(t, a)])])]
    # qualifier-free positions
    s = strip_q(t)
    if s['t'] is not None and t['c'] == 0 and t['m'] == '':
        mod += [D.typedef(s, P['cls'][1] + 'Td'),
                D.cls(P['cls'][1], [], b=s, v=1),
                D.func(single(i), P['fn'][2], [arg(T('Q'), a)], tpl=[D.tparam('Q', [s, T('double')])])]
    elif s['t'] is None and t['c'] == 0 and t['m'] == '' and t['q'] not in D.BASIC:
        mod += [D.cls(P['cls'][1], [], b=s),
                D.fwd(P['ns'][0] + '::Fw', 1, s['q']),
                D.func(single(i), P['fn'][2], [arg(T('Q'), a)], tpl=[D.tparam('Q', [T('double'), s])])]
    return mod


# ------------------------------------------------------------------ family 2: declaration features
def templates(P):
    c = P['cls'][0]
    return [None,
            [D.tparam('T')],
            [D.tparam('T', [T(c)])],
            [D.tparam('POSE', [T(c), T(P['tpl'][0], t=[T(P['ns'][0] + '::' + P['cls'][1])])]), D.tparam('U')],
            [D.tparam('T', [T('double'), T('3')]), D.tparam('U', [T('%s::%s::%s' % (P['ns'][2], P['ns'][3], c))])],
            # templated entry first, plain entries after it, and the other way round
            [D.tparam('T', [T(P['tpl'][0], t=[T(P['ns'][0] + '::' + P['cls'][1])]), T(c), T('std::size_t')]),
             D.tparam('U', [T(c), T(P['tpl'][1], t=[T('int'), T(c)]), T('double')])],
            # same short name from two namespaces, and the same type twice: a list is kept as written
            [D.tparam('T', [T(P['ns'][0] + '::Model'), T(P['ns'][1] + '::Model'),
                            T(P['tpl'][0], t=[T(P['ns'][0] + '::Model')]), T(P['tpl'][0], t=[T(P['ns'][1] + '::Model')]), T(P['ns'][0] + '::Model')])]]


def rets(P):
    c = P['cls'][0]
    return [single(T('void')), single(T('size_t')), single(T(P['ns'][0] + '::' + c, 1, '&')),
            pair(T(c, 0, '*'), T('double')), pair(T('int'), T(c, 1, '@'), std=1),
            single(T(P['tpl'][0], 0, '*', [T(c, 1, '&')])),
            # a pair type that itself carries a qualifier is an ordinary templated type named pair
            single(T('pair', 0, '&', [T(c), T('double')])), single(T('std::pair', 1, '*', [T('int'), T(c)])),
            single(T('pair', 0, '@', [T(c, 0, '*'), T('int')])),
            single(T('my::pair', t=[T('int'), T(c, 0, '*')])), single(T(P['ns'][0] + '::pair', 1, '&', [T(c), T(c)]))]


def arglists(P, maxn):
    """All arities 0..maxn with every default mask (the parser accepts any mask)."""
    c = P['cls'][0]
    types = [T('int'), T(c, 1, '&'), T(P['tpl'][0], 0, '', [T('double')]), T(P['ns'][0] + '::' + c, 0, '*')]
    out = []
    k = 0
    for n in range(maxn + 1):
        for mask in itertools.product((0, 1), repeat=n):
            al = []
            for i in range(n):
                dflt = None
                if mask[i]:
                    dflt = DEFAULTS[k % len(DEFAULTS)]
                    k += 1
                al.append(arg(types[(i + n) % len(types)], P['names'][i], dflt))
            out.append(al)
    return out


def decl_cases(P, thorough):
    """Yield (label, module) pairs; modules are small batches of declarations of one kind."""
    maxn = 3
    C = P['cls'][0]
    tpls, rs, als = templates(P), rets(P), arglists(P, maxn)
    # free functions
    for ti, tpl in enumerate(tpls):
        for ri, r in enumerate(rs):
            yield 'func', [D.func(r, P['fn'][(ai + ri) % 4], al, tpl) for ai, al in enumerate(als)]
    # methods / statics / ctors inside a class, each with each template header
    for ti, tpl in enumerate(tpls):
        for ri, r in enumerate(rs):
            for const in (0, 1):
                yield 'method', [D.cls(C, [D.method(r, P['fn'][ai % 4], al, const, tpl) for ai, al in enumerate(als)])]
            yield 'static', [D.cls(C, [D.static(r, P['fn'][ai % 4], al, tpl) for ai, al in enumerate(als)])]
        yield 'ctor', [D.cls(C, [D.ctor(C, al, tpl) for al in als])]
    # overloads of one name declared with other members in between: per-kind source order must survive
    I_ = T('int')
    yield 'overload-order', [D.cls(C, [D.method(single(I_), 'add', [arg(I_, 'a')]), D.method(single(I_), 'size', [], 1),
                                       D.method(single(I_), 'add', [arg(T('double'), 'b')]), D.static(single(I_), 'make', []),
                                       D.static(single(I_), 'other', []), D.static(single(I_), 'make', [arg(I_, 'n')]),
                                       D.method(single(I_), 'aaa', []), D.ctor(C, [arg(I_, 'z')]), D.ctor(C), D.method(single(I_), 'add', [])])]
    # members that differ only in constness, in their template header, or in nothing at all: each is kept
    Mx = T(P['tpl'][0], t=[T('double')])
    yield 'twin-members', [D.cls(C, [D.method(single(Mx), 'at', [arg(T('size_t'), 'i')], 1), D.method(single(Mx), 'at', [arg(T('size_t'), 'i')], 0),
                                     D.method(single(T('T')), 'get', [arg(T('T', 1, '&'), 'v')], 1, [D.tparam('T', [T('int')])]),
                                     D.method(single(T('T')), 'get', [arg(T('T', 1, '&'), 'v')], 1, [D.tparam('T', [T('double'), T(C)])]),
                                     D.static(single(I_), 'make', []), D.static(single(I_), 'make', []),
                                     D.ctor(C), D.ctor(C), D.prop(I_, 'p'), D.op(single(T(C)), '-', []), D.op(single(T(C)), '-', [])]),
                           D.func(single(I_), 'twice', []), D.func(single(I_), 'twice', []),
                           # several callables without parameters, at different scopes
                           D.ns(P['ns'][0], [D.func(single(T('void')), 'noargs', []), D.cls(P['cls'][1], [D.method(single(I_), 'm0', []), D.static(single(I_), 's0', [])])]),
                           D.func(single(T('void')), 'last', [])]
    # a forward declaration next to a class definition of the same (unqualified) name, in one block
    yield 'fwd-and-class', [D.fwd('Values'), D.cls('Values', [D.ctor('Values')]),
                            D.ns(P['ns'][0], [D.fwd('gtsam::Shape', 1), D.cls('Shape', [D.ctor('Shape')], v=1), D.fwd('Later', 0, 'Shape'),
                                              D.cls('Later', [], b=T('Shape'))])]
    # default texts: each text in each argument position of a 3-argument function, and on variables/properties
    for di, dflt in enumerate(DEFAULTS):
        decls = []
        for pos in range(3):
            al = [arg(T('int'), P['names'][i], dflt if i == pos else None) for i in range(3)]
            decls.append(D.func(single(T('void')), P['fn'][pos], al))
        decls.append(D.var(T('double', 1), P['names'][3], dflt))
        decls.append(D.cls(C, [D.prop(T('int'), P['names'][4], dflt), D.ctor(C, [arg(T('int'), 'a', dflt)])]))
        decls.append(D.ns(P['ns'][0], [D.var(T(C), P['names'][5], dflt)]))
        yield 'default', decls
    # class headers
    bases = [None, T(P['cls'][1]), T(P['ns'][0] + '::' + P['cls'][1]),
             T(P['cls'][1], t=[T('T')]), T(P['ns'][0] + '::' + P['tpl'][0], t=[T(C), T('int', 0, '*')])]
    for tpl in tpls:
        for v in (0, 1):
            for b in bases:
                yield 'class', [D.cls(C, [D.ctor(C), D.prop(T('int'), 'x')], tpl=tpl, v=v, b=b)]
    # operators
    ops = []
    for o in BIN_OPS:
        ops.append(D.op(single(T(C)), o, [arg(T(C, 1, '&'), P['names'][0])]))
    ops.append(D.op(single(T(C)), '+', []))
    ops.append(D.op(single(T(C)), '-', []))
    ops.append(D.op(single(T('double')), '()', [arg(T('int'), P['names'][0])]))
    ops.append(D.op(single(T(P['tpl'][0], t=[T('int')])), '[]', [arg(T('size_t'), P['names'][1])]))
    for o in ops:
        yield 'operator', [D.cls(C, [o])]
    yield 'operator', [D.cls(C, ops)]
    # dunders
    for n, a in (('len', []), ('iter', []), ('contains', [arg(T('size_t'), 'key')]), ('abs', []),
                 ('getitem', [arg(T('int'), 'i'), arg(T(C, 1, '&'), 'v', 'A::B')])):
        yield 'dunder', [D.cls(C, [D.dunder(n, a)])]
    # enums at every scope
    for kw in ('enum', 'enum class', 'enum struct'):
        for n in (1, 2, 3):
            e = D.enum('Kind', ['Dog', 'Cat', 'e3'][:n], kw)
            yield 'enum', [e, D.ns(P['ns'][0], [e]), D.cls(C, [e, D.enum('Other', ['X'], kw)])]
    # forward declarations
    for v in (0, 1):
        for q in (C, P['ns'][0] + '::' + C, '%s::%s::%s' % (P['ns'][2], P['ns'][3], C)):
            for p in (None, P['cls'][1], P['ns'][0] + '::' + P['cls'][1]):
                yield 'fwd', [D.fwd(q, v, p), D.ns(P['ns'][1], [D.fwd(q, v, p)])]
    # includes
    for h in ('a.h', 'gtsam/base/Vector.h', 'x-y/z_1.hpp', 'dir with space/f.h'):
        yield 'include', [D.include(h), D.ns(P['ns'][0], [D.include(h), D.cls(C)])]
    # variables
    for t in (T('int'), T('double', 1), T(C), T(P['ns'][0] + '::' + C, 0, '*'), T(P['tpl'][0], 1, '', [T('int')])):
        for dflt in [None] + DEFAULTS[:5]:
            yield 'var', [D.var(t, P['names'][0], dflt), D.ns(P['ns'][0], [D.var(t, P['names'][1], dflt)])]
    # typedefs
    c2 = P['ns'][0] + '::' + P['cls'][1]
    for t in (T(C, t=[T('int')]), T(P['ns'][0] + '::' + C, t=[T(c2), T('double')]),
              T(C, t=[T(P['tpl'][0], t=[T(c2)])]), T(C, t=[T(P['tpl'][1], t=[T('int'), T(P['tpl'][0], t=[T(c2)])])])):
        yield 'typedef', [D.typedef(t, 'TdName'), D.ns(P['ns'][0], [D.typedef(t, 'TdName2')])]


# ------------------------------------------------------------------ family 3: order / nesting / attribution
def item_kinds(P, i):
    """One representative top-level item per kind, with a position-dependent name."""
    s = str(i)
    C = P['cls'][0]
    return [
        ('include', lambda: D.include('h%s.h' % s)),
        ('fwd', lambda: D.fwd('Fw' + s)),
        ('class', lambda: D.cls('Cl' + s, [D.ctor('Cl' + s), D.method(single(T('int')), 'm' + s, [], 1)])),
        ('typedef', lambda: D.typedef(T(C, t=[T('int')]), 'Td' + s)),
        ('func', lambda: D.func(single(T('void')), 'fn' + s, [arg(T('int'), 'a')])),
        ('enum', lambda: D.enum('En' + s, ['A' + s, 'B' + s])),
        ('var', lambda: D.var(T('double'), 'var' + s, s)),
        ('ns', lambda: D.ns('sub' + s, [D.cls('In' + s)])),
        ('emptyns', lambda: D.ns('e' + s, [])),
    ]


def nestings(P):
    """Ways of wrapping a sequence of items (a list) into a module."""
    a, b, c = P['ns'][0], P['ns'][1], P['ns'][2]
    return [
        ('d0', lambda items: list(items)),
        ('d1', lambda items: [D.ns(a, items)]),
        ('d2', lambda items: [D.ns(a, [D.ns(b, items)])]),
        ('d3', lambda items: [D.ns(a, [D.ns(b, [D.ns(c, items)])])]),
        ('split', lambda items: [D.ns(a, items[:1]), D.ns(b, items[1:])]),          # siblings
        ('reopen', lambda items: [D.ns(a, items[:1]), D.ns(a, items[1:])]),         # re-opened namespace
        ('mixed', lambda items: items[:1] + [D.ns(a, [D.ns(b, items[1:2])] + items[2:])]),
        ('repeat', lambda items: [D.ns(a, [D.ns(b, [D.ns(a, items)])])]),            # a::b::a
        ('repeat2', lambda items: [D.ns(a, [D.ns(a, items[:1] + [D.ns(b, [D.ns(a, items[1:])])])])]),   # a::a and a::a::b::a
    ]


def member_kinds(P, C, i):
    s = str(i)
    return [
        lambda: D.ctor(C, [arg(T('int'), 'a' + s)]),
        lambda: D.method(single(T('int')), 'm' + s, [], 1),
        lambda: D.static(single(T('void')), 's' + s, []),
        lambda: D.prop(T('double'), 'p' + s),
        lambda: D.op(single(T(C)), ['+', '-', '*'][i % 3], [arg(T(C, 1, '&'), 'o')]),
        lambda: D.enum('E' + s, ['X' + s]),
        lambda: D.dunder(['len', 'iter', 'abs'][i % 3], []),
    ]


def order_cases(P, n, m):
    for L in range(1, n + 1):
        for combo in itertools.product(range(9), repeat=L):
            items = [item_kinds(P, pos)[k][1]() for pos, k in enumerate(combo)]
            for name, wrapf in nestings(P):
                if name in ('split', 'reopen', 'mixed', 'repeat2') and L < 2:
                    continue
                yield 'order', wrapf(items)
    C = P['cls'][1]
    for L in range(0, m + 1):
        for combo in itertools.product(range(7), repeat=L):
            mem = [member_kinds(P, C, pos)[k]() for pos, k in enumerate(combo)]
            yield 'members', [D.ns(P['ns'][0], [D.cls(C, mem), D.cls('After')])]


# ------------------------------------------------------------------ worker
LAYOUTS = [D.render_spaced, D.render_tight, D.render]


def check_case(case):
    fam, mod, li = case['fam'], case['mod'], case['layout']
    return _check(fam, mod, li)


def _check(fam, mod, li, split=True):
    text = LAYOUTS[li](mod)
    want = D.expected(mod)
    viol = []
    try:
        got = D.observe(text)
    except Exception as e:
        if split and len(mod) > 1:
            # localise: re-run each top-level declaration alone
            for d in mod:
                viol += _check(fam, [d], li, split=False)['viol']
            if viol:
                return {'viol': viol}
        elif split and len(mod) == 1 and mod[0]['k'] == 'class' and len(mod[0]['m']) > 1:
            for mem in mod[0]['m']:
                one = dict(mod[0], m=[mem])
                viol += _check(fam, [one], li, split=False)['viol']
            if viol:
                return {'viol': viol}
        kind = mod[0]['k'] if len(mod) == 1 else 'module'
        if len(mod) == 1 and kind == 'class' and len(mod[0]['m']) == 1:
            kind = 'class.' + mod[0]['m'][0]['k']
        viol.append({'sig': 'C01|%s|rejected|%s|%s' % (fam, kind, type(e).__name__),
                     'msg': 'well-formed input rejected: %s\n--- input ---\n%s' % (str(e)[:300], text)})
        return {'viol': viol}
    d = D.diff(want, got)
    if d:
        viol.append({'sig': 'C01|%s|%s' % (fam, D.diff_locus(d)),
                     'msg': 'parse tree differs from source at %s\n--- input ---\n%s' % (d, text)})
    return {'viol': viol, 'n': len(text)}


def replay(case):
    return check_case(case)['viol']


def run(ctx):
    P = pool(ctx.seed)
    cases = []
    k = 0

    def add(fam, mod):
        nonlocal k
        cases.append({'fam': fam, 'mod': mod, 'layout': k % 3})
        k += 1

    ntypes = {}
    depths = [0, 1, 2] + ([3] if ctx.thorough else [])
    for d in depths:
        u = universe(P, d, ctx.thorough)
        ntypes['d%d' % d] = len(u)
        for t in u:
            add('types_d%d' % d, module_for_type(P, t))
    ndecl = 0
    for fam, mod in decl_cases(P, ctx.thorough):
        add('decls_' + fam, mod)
        ndecl += 1
    n, m = (3, 3) if ctx.thorough else (2, 2)
    nord = 0
    for fam, mod in order_cases(P, n, m):
        add(fam, mod)
        nord += 1
    res = ctx.map(check_case, cases)
    texts = sum(1 for _, r in res if 'n' in r)
    samples = [LAYOUTS[c['layout']](c['mod']) for c in (cases[0], cases[len(cases) // 2], cases[-1])]
    return {
        'evaluations': len(cases),
        'distinct_nontrivial': len({D.render_tight(c['mod']) for c in cases}),
        'rule': 'complete enumeration of (1) type universe U(d) for d in %s placed in every type position, '
                '(2) all flag/arity/default-mask combinations per declaration and member kind, '
                '(3) all item sequences of length <= %d at 9 namespace nestings (depth 0..3, siblings, re-opened, chains that repeat a name) and all member sequences of '
                'length <= %d; a case is one rendered module, distinct by token sequence; each parsed by the '
                'real Module.parseString and compared with the reference projection' % (depths, n, m),
        'samples': samples,
        'exhaustive': True,
        'types_per_depth': ntypes, 'decl_feature_modules': ndecl, 'order_modules': nord,
        'accepted_and_compared': texts,
    }
