"""Reference model of the interface-file dialect (written from DOCS.md; shares no code with gtwrap).

A *spec* is a JSON-able tree that is at the same time (a) what the renderer turns into
interface text and (b) after `expected()` normalisation, the canonical parse tree the
real parser must produce.  `observe()` walks the real parse tree into the same shape.

Type      {"c":0|1, "q":"ns::Name", "t":[Type...]|None, "m":""|"*"|"@"|"&"}
Ret       {"k":"single","t":Type} | {"k":"pair","std":0|1,"t1":Type,"t2":Type}
Arg       {"t":Type,"n":name,"d":default text|None}
Template  [{"n":param,"i":[Typename-like Type (no qualifiers)]|None}]
Decl      include / fwd / class / typedef / func / enum / var / ns        (key "k")
Member    ctor / method / static / prop / op / enum / dunder              (key "k")
"""

BASIC = ['void', 'bool', 'unsigned char', 'char', 'int', 'size_t', 'double', 'float']


# ---------------------------------------------------------------- constructors
def T(q, c=0, m='', t=None):
    return {'c': c, 'q': q, 't': t, 'm': m}


def single(t):
    return {'k': 'single', 't': t}


def pair(t1, t2, std=0):
    return {'k': 'pair', 'std': std, 't1': t1, 't2': t2}


def arg(t, n, d=None):
    return {'t': t, 'n': n, 'd': d}


def tparam(n, insts=None):
    return {'n': n, 'i': insts}


def include(h):
    return {'k': 'include', 'h': h}


def fwd(q, v=0, p=None):
    return {'k': 'fwd', 'v': v, 'q': q, 'p': p}


def cls(n, m=(), tpl=None, v=0, b=None):
    return {'k': 'class', 'tpl': tpl, 'v': v, 'n': n, 'b': b, 'm': list(m)}


def typedef(t, n):
    return {'k': 'typedef', 't': t, 'n': n}


def func(r, n, a=(), tpl=None):
    return {'k': 'func', 'tpl': tpl, 'r': r, 'n': n, 'a': list(a)}


def enum(n, e, kw='enum'):
    return {'k': 'enum', 'kw': kw, 'n': n, 'e': list(e)}


def var(t, n, d=None):
    return {'k': 'var', 't': t, 'n': n, 'd': d}


def ns(n, c=()):
    return {'k': 'ns', 'n': n, 'c': list(c)}


def ctor(n, a=(), tpl=None):
    return {'k': 'ctor', 'tpl': tpl, 'n': n, 'a': list(a)}


def method(r, n, a=(), c=0, tpl=None):
    return {'k': 'method', 'tpl': tpl, 'r': r, 'n': n, 'a': list(a), 'c': c}


def static(r, n, a=(), tpl=None):
    return {'k': 'static', 'tpl': tpl, 'r': r, 'n': n, 'a': list(a)}


def prop(t, n, d=None):
    return {'k': 'prop', 't': t, 'n': n, 'd': d}


def op(r, o, a=(), c=1):
    return {'k': 'op', 'r': r, 'o': o, 'a': list(a), 'c': c}


def dunder(n, a=()):
    return {'k': 'dunder', 'n': n, 'a': list(a)}


# ---------------------------------------------------------------- rendering to dialect tokens
def tok_qname(q):
    out = []
    for i, part in enumerate(q.split('::')):
        if i:
            out.append('::')
        out.append(part)
    return out


def tok_type(t):
    out = []
    if t['c']:
        out.append('const')
    if t['q'] in BASIC:
        out.append(t['q'])            # multi-word keyword is one terminal
    else:
        out += tok_qname(t['q'])
    if t['t'] is not None:
        out.append('<')
        for i, p in enumerate(t['t']):
            if i:
                out.append(',')
            out += tok_type(p)
        out.append('>')
    if t['m']:
        out.append(t['m'])
    return out


def tok_ret(r):
    if r['k'] == 'single':
        return tok_type(r['t'])
    out = (['std::'] if r['std'] else []) + ['pair', '<']
    return out + tok_type(r['t1']) + [','] + tok_type(r['t2']) + ['>']


def tok_args(args):
    out = ['(']
    for i, a in enumerate(args):
        if i:
            out.append(',')
        out += tok_type(a['t']) + [a['n']]
        if a['d'] is not None:
            out += ['=', a['d']]     # default expression: one verbatim token
    return out + [')']


def tok_template(tpl):
    if not tpl:
        return []
    out = ['template', '<']
    for i, p in enumerate(tpl):
        if i:
            out.append(',')
        out.append(p['n'])
        if p['i'] is not None:
            out += ['=', '{']
            for j, inst in enumerate(p['i']):
                if j:
                    out.append(',')
                out += tok_type(inst)
            out.append('}')
    return out + ['>']


def tok_enum(d):
    out = [d.get('kw', 'enum'), d['n'], '{']
    for i, e in enumerate(d['e']):
        if i:
            out.append(',')
        out.append(e)
    return out + ['}', ';']


def tok_member(m):
    k = m['k']
    if k == 'ctor':
        return tok_template(m['tpl']) + [m['n']] + tok_args(m['a']) + [';']
    if k == 'method':
        return tok_template(m['tpl']) + tok_ret(m['r']) + [m['n']] + tok_args(m['a']) + \
            (['const'] if m['c'] else []) + [';']
    if k == 'static':
        return tok_template(m['tpl']) + ['static'] + tok_ret(m['r']) + [m['n']] + tok_args(m['a']) + [';']
    if k == 'prop':
        return tok_type(m['t']) + [m['n']] + (['=', m['d']] if m['d'] is not None else []) + [';']
    if k == 'op':
        return tok_ret(m['r']) + ['operator', m['o']] + tok_args(m['a']) + (['const'] if m['c'] else []) + [';']
    if k == 'enum':
        return tok_enum(m)
    if k == 'dunder':
        return ['__%s__' % m['n']] + tok_args(m['a']) + [';']
    raise ValueError(k)


def tok_decl(d):
    k = d['k']
    if k == 'include':
        return ['#include', '<', d['h'], '>']
    if k == 'fwd':
        return (['virtual'] if d['v'] else []) + ['class'] + tok_qname(d['q']) + \
            ([':'] + tok_qname(d['p']) if d['p'] else []) + [';']
    if k == 'class':
        out = tok_template(d['tpl']) + (['virtual'] if d['v'] else []) + ['class', d['n']]
        if d['b'] is not None:
            out += [':'] + tok_type(d['b'])
        out.append('{')
        for m in d['m']:
            out += tok_member(m)
        return out + ['}', ';']
    if k == 'typedef':
        return ['typedef'] + tok_type(d['t']) + [d['n'], ';']
    if k == 'func':
        return tok_template(d['tpl']) + tok_ret(d['r']) + [d['n']] + tok_args(d['a']) + [';']
    if k == 'enum':
        return tok_enum(d)
    if k == 'var':
        return tok_type(d['t']) + [d['n']] + (['=', d['d']] if d['d'] is not None else []) + [';']
    if k == 'ns':
        out = ['namespace', d['n'], '{']
        for c in d['c']:
            out += tok_decl(c)
        return out + ['}']
    raise ValueError(k)


def tokens(module):
    out = []
    for d in module:
        out += tok_decl(d)
    return out


def _idc(ch):
    return ch.isalnum() or ch == '_'


def needs_gap(a, b):
    """Two adjacent tokens fuse into a different token sequence without separation."""
    return _idc(a[-1]) and _idc(b[0])


def render_tight(module):
    """Minimal layout: whitespace only where two tokens would otherwise fuse."""
    toks = tokens(module)
    out = []
    for i, t in enumerate(toks):
        if i and needs_gap(toks[i - 1], t):
            out.append(' ')
        out.append(t)
    return ''.join(out)


def render(module):
    """Conventional layout: one declaration/member per line."""
    toks = tokens(module)
    out = []
    depth = 0
    for i, t in enumerate(toks):
        prev = toks[i - 1] if i else None
        inc = (i >= 1 and prev == '#include') or (i >= 2 and toks[i - 2] == '#include') or \
              (i >= 3 and toks[i - 3] == '#include')
        if prev is None or out[-1].endswith('\n'):
            pass
        elif inc and t != '<':
            pass
        elif t in (',', ';', ')', '::') or prev in ('(', '::', 'std::'):
            pass
        elif t in ('*', '&', '@') and prev not in ('operator',):
            pass
        elif t == '<' and prev not in ('operator', '#include') or prev == '<' and i >= 2 and toks[i - 2] != 'operator':
            pass
        elif t == '>' and prev != 'operator':
            pass
        elif t == '(' and prev != 'operator':
            pass
        else:
            out.append(' ')
        out.append(t)
        nxt = toks[i + 1] if i + 1 < len(toks) else None
        if t == ';' or (t == '{' and prev != '=') or (t == '}' and nxt not in (';', ',', '>') and True) or \
                (t == '>' and i >= 3 and toks[i - 3] == '#include'):
            out.append('\n')
    return ''.join(out)


def render_spaced(module):
    """Every token separated by one space (always valid: no token fusion possible)."""
    toks = tokens(module)
    out = []
    for i, t in enumerate(toks):
        out.append(t)
        # include header is delimited by < >: keep it tight so the header text is exact
        nxt = toks[i + 1] if i + 1 < len(toks) else None
        if t == '<' and i and toks[i - 1] == '#include':
            continue
        if nxt == '>' and i >= 2 and toks[i - 2] == '#include':
            continue
        if t == '>' and i >= 3 and toks[i - 3] == '#include':
            out.append('\n')
            continue
        out.append(' ')
    return ''.join(out)


# ---------------------------------------------------------------- expected canonical tree
MEMBER_KINDS = ['ctor', 'method', 'static', 'prop', 'op', 'enum', 'dunder']


def x_type(t):
    return {'c': int(bool(t['c'])), 'q': t['q'], 'm': t['m'],
            't': None if t['t'] is None else [x_type(p) for p in t['t']]}


def x_typename(t):
    """Typename positions (instantiation lists, typedef target) carry no qualifiers."""
    return {'q': t['q'], 't': None if t['t'] is None else [x_typename(p) for p in t['t']]}


def x_ret(r):
    if r['k'] == 'single':
        t = r['t']
        if t['q'] in ('pair', 'std::pair') and t['t'] is not None and len(t['t']) == 2 and not t['c'] and not t['m']:
            # `pair<X<..>, Y>`: a pair return whose slots are templated
            return {'k': 'pair', 't1': x_type(t['t'][0]), 't2': x_type(t['t'][1])}
        return {'k': 'single', 't': x_type(t)}
    return {'k': 'pair', 't1': x_type(r['t1']), 't2': x_type(r['t2'])}


def x_args(a):
    return [{'t': x_type(x['t']), 'n': x['n'], 'd': x['d']} for x in a]


def x_tpl(tpl):
    if not tpl:
        return None
    # every entry of an instantiation list is a Typename node, templated or not
    return [{'n': p['n'], 'i': [] if p['i'] is None else [x_typename(i) for i in p['i']], 'nodes': ['Typename']} for p in tpl]


def x_member(m):
    k = m['k']
    if k == 'ctor':
        return {'k': k, 'tpl': x_tpl(m['tpl']), 'n': m['n'], 'a': x_args(m['a'])}
    if k == 'method':
        return {'k': k, 'tpl': x_tpl(m['tpl']), 'r': x_ret(m['r']), 'n': m['n'], 'a': x_args(m['a']),
                'c': int(bool(m['c']))}
    if k == 'static':
        return {'k': k, 'tpl': x_tpl(m['tpl']), 'r': x_ret(m['r']), 'n': m['n'], 'a': x_args(m['a'])}
    if k == 'prop':
        return {'k': k, 't': x_type(m['t']), 'n': m['n'], 'd': m['d']}
    if k == 'op':
        return {'k': k, 'r': x_ret(m['r']), 'o': m['o'], 'a': x_args(m['a']), 'c': int(bool(m['c']))}
    if k == 'enum':
        return {'k': k, 'n': m['n'], 'e': list(m['e'])}
    if k == 'dunder':
        return {'k': k, 'n': m['n'], 'a': x_args(m['a'])}
    raise ValueError(k)


def x_decl(d, path):
    k = d['k']
    if k == 'include':
        return {'k': k, 'h': d['h'], 'path': path}
    if k == 'fwd':
        return {'k': k, 'v': int(bool(d['v'])), 'q': d['q'], 'p': d['p'], 'path': path}
    if k == 'class':
        mem = {mk: [] for mk in MEMBER_KINDS}
        for m in d['m']:
            mem[m['k']].append(x_member(m))
        b = d['b']
        if b is not None:
            b = x_type(b) if b['t'] is not None else {'q': b['q']}
        return {'k': k, 'tpl': x_tpl(d['tpl']), 'v': int(bool(d['v'])), 'n': d['n'], 'b': b, 'm': mem,
                'path': path, 'scope': [''] + list(path)}
    if k == 'typedef':
        return {'k': k, 't': x_typename(d['t']), 'n': d['n'], 'path': path}
    if k == 'func':
        return {'k': k, 'tpl': x_tpl(d['tpl']), 'r': x_ret(d['r']), 'n': d['n'], 'a': x_args(d['a']),
                'path': path}
    if k == 'enum':
        return {'k': k, 'n': d['n'], 'e': list(d['e']), 'path': path, 'scope': [''] + list(path)}
    if k == 'var':
        return {'k': k, 't': x_type(d['t']), 'n': d['n'], 'd': d['d'], 'path': path}
    if k == 'ns':
        return {'k': k, 'n': d['n'], 'path': path, 'scope': [''] + list(path) + [d['n']],
                'c': [x_decl(c, path + [d['n']]) for c in d['c']]}
    raise ValueError(k)


def expected(module):
    return [x_decl(d, []) for d in module]


# ---------------------------------------------------------------- observer on the real parse tree
def _marker(t):
    m = ''
    if t.is_shared_ptr:
        m += '*'
    if t.is_ptr:
        m += '@'
    if t.is_ref:
        m += '&'
    return m


def o_typename(tn):
    insts = list(tn.instantiations)
    return {'q': '::'.join(list(tn.namespaces) + [tn.name]),
            't': [o_typename(i) for i in insts] if insts else None}


def o_type(t):
    import gtwrap.interface_parser as ip
    if isinstance(t, ip.TemplatedType):
        r = {'c': int(bool(t.is_const)), 'q': '::'.join(list(t.typename.namespaces) + [t.typename.name]),
             'm': _marker(t), 't': [o_type(p) for p in t.template_params]}
        # the Typename view of the same type must agree with the structured view
        tn = o_typename(t.typename)
        want = x_typename(r)
        if tn != want:
            r['typename_view_mismatch'] = [tn, want]
        return r
    if isinstance(t, ip.Type):
        r = {'c': int(bool(t.is_const)), 'q': '::'.join(list(t.typename.namespaces) + [t.typename.name]),
             'm': _marker(t), 't': None}
        if t.typename.instantiations:
            r['t'] = [o_typename(i) for i in t.typename.instantiations]
        basic = t.typename.name in BASIC and not t.typename.namespaces
        if bool(t.is_basic) != basic:
            r['is_basic'] = bool(t.is_basic)
        return r
    return {'not_a_type': repr(t)}


def o_ret(r):
    t1 = r.type1
    if r.type2:
        return {'k': 'pair', 't1': o_type(t1), 't2': o_type(r.type2)}
    o = o_type(t1)
    if o.get('q') in ('pair', 'std::pair') and o.get('t') and len(o['t']) == 2 and not o['c'] and not o['m']:
        # a pair whose slots are templated is represented as a templated type named pair
        return {'k': 'pair', 't1': o['t'][0], 't2': o['t'][1]}
    return {'k': 'single', 't': o}


def o_args(a):
    return [{'t': o_type(x.ctype), 'n': x.name, 'd': None if x.default is None else str(x.default)}
            for x in a.list()]


def o_tpl(tpl):
    if not tpl:
        return None
    return [{'n': n, 'i': [o_typename(i) for i in insts], 'nodes': sorted({type(i).__name__ for i in insts}) or ['Typename']}
            for n, insts in zip(tpl.typenames, tpl.instantiations)]


def _path(obj):
    p = []
    a = getattr(obj, 'parent', '')
    n = 0
    while a != '' and a is not None and n < 50:
        if getattr(a, 'name', ''):
            p.insert(0, a.name)
        a = getattr(a, 'parent', '')
        n += 1
    return p


def o_member_lists(c):
    mem = {mk: [] for mk in MEMBER_KINDS}
    for m in c.ctors:
        mem['ctor'].append({'k': 'ctor', 'tpl': o_tpl(m.template), 'n': m.name, 'a': o_args(m.args)})
    for m in c.methods:
        mem['method'].append({'k': 'method', 'tpl': o_tpl(m.template), 'r': o_ret(m.return_type), 'n': m.name,
                              'a': o_args(m.args), 'c': int(bool(m.is_const))})
    for m in c.static_methods:
        mem['static'].append({'k': 'static', 'tpl': o_tpl(m.template), 'r': o_ret(m.return_type),
                              'n': m.name, 'a': o_args(m.args)})
    for m in c.properties:
        mem['prop'].append({'k': 'prop', 't': o_type(m.ctype), 'n': m.name,
                            'd': None if m.default is None else str(m.default)})
    for m in c.operators:
        mem['op'].append({'k': 'op', 'r': o_ret(m.return_type), 'o': m.operator, 'a': o_args(m.args),
                          'c': int(bool(m.is_const))})
    for m in c.enums:
        mem['enum'].append({'k': 'enum', 'n': m.name, 'e': [e.name for e in m.enumerators]})
    for m in c.dunder_methods:
        mem['dunder'].append({'k': 'dunder', 'n': m.name, 'a': o_args(m.args)})
    return mem


def o_decl(d):
    import gtwrap.interface_parser as ip
    if isinstance(d, ip.Include):
        return {'k': 'include', 'h': str(d.header), 'path': _path(d)}
    if isinstance(d, ip.ForwardDeclaration):
        return {'k': 'fwd', 'v': int(bool(d.is_virtual)),
                'q': '::'.join(list(d.typename.namespaces) + [d.typename.name]),
                'p': ('::'.join(list(d.parent_type.namespaces) + [d.parent_type.name]) if d.parent_type else None),
                'path': _path(d)}
    if isinstance(d, ip.Class):
        b = d.parent_class
        if not b:
            ob = None
        elif isinstance(b, ip.TemplatedType):
            ob = o_type(b)
        elif isinstance(b, ip.Typename):
            ob = {'q': '::'.join(list(b.namespaces) + [b.name])}
            if b.instantiations:
                ob['t'] = [o_typename(i) for i in b.instantiations]
        else:
            ob = {'unexpected_base': repr(b)}
        r = {'k': 'class', 'tpl': o_tpl(d.template), 'v': int(bool(d.is_virtual)), 'n': d.name, 'b': ob,
             'm': o_member_lists(d), 'path': _path(d), 'scope': list(d.namespaces())}
        # members must point back at their class
        for lst in (d.ctors, d.methods, d.static_methods, d.properties):
            for m in lst:
                if m.parent is not d:
                    r['member_parent_wrong'] = getattr(m, 'name', '?')
        return r
    if isinstance(d, ip.TypedefTemplateInstantiation):
        return {'k': 'typedef', 't': o_typename(d.typename), 'n': d.new_name, 'path': _path(d)}
    if isinstance(d, ip.GlobalFunction):
        r = {'k': 'func', 'tpl': o_tpl(d.template), 'r': o_ret(d.return_type), 'n': d.name,
             'a': o_args(d.args), 'path': _path(d)}
        # the argument list and the return type of a function point back at it
        if getattr(d.args, 'parent', None) is not d:
            r['args_parent_wrong'] = getattr(getattr(d.args, 'parent', None), 'name', repr(getattr(d.args, 'parent', None)))
        if getattr(d.return_type, 'parent', None) is not d:
            r['return_parent_wrong'] = True
        return r
    if isinstance(d, ip.Enum):
        return {'k': 'enum', 'n': d.name, 'e': [e.name for e in d.enumerators], 'path': _path(d), 'scope': list(d.namespaces())}
    if isinstance(d, ip.Variable):
        return {'k': 'var', 't': o_type(d.ctype), 'n': d.name,
                'd': None if d.default is None else str(d.default), 'path': _path(d)}
    if isinstance(d, ip.Namespace):
        return {'k': 'ns', 'n': d.name, 'path': _path(d), 'scope': list(d.full_namespaces()), 'c': [o_decl(c) for c in d.content]}
    return {'k': 'unknown', 'repr': repr(d)}


def observe(text):
    """Parse with the real parser; return the canonical tree."""
    import gtwrap.interface_parser as ip
    m = ip.Module.parseString(text)
    return [o_decl(c) for c in m.content]


# ---------------------------------------------------------------- tree diff (first difference, as a path)
def diff(a, b, path=''):
    if type(a) != type(b):
        return '%s: expected %r, observed %r' % (path, a, b)
    if isinstance(a, dict):
        for k in sorted(set(a) | set(b)):
            if k not in a or k not in b:
                return '%s.%s: expected %r, observed %r' % (path, k, a.get(k, '<absent>'), b.get(k, '<absent>'))
            d = diff(a[k], b[k], path + '.' + k)
            if d:
                return d
        return None
    if isinstance(a, list):
        if len(a) != len(b):
            return '%s: expected %d items, observed %d: %r vs %r' % (path, len(a), len(b), _brief(a), _brief(b))
        for i, (x, y) in enumerate(zip(a, b)):
            d = diff(x, y, '%s[%d]' % (path, i))
            if d:
                return d
        return None
    if a != b:
        return '%s: expected %r, observed %r' % (path, a, b)
    return None


def diff_all(a, b, path='', out=None):
    """All leaf differences (list of strings); lists of unequal length are one difference."""
    if out is None:
        out = []
    if type(a) != type(b):
        out.append('%s: expected %r, observed %r' % (path, a, b))
    elif isinstance(a, dict):
        for k in sorted(set(a) | set(b)):
            if k not in a or k not in b:
                out.append('%s.%s: expected %r, observed %r' % (path, k, a.get(k, '<absent>'), b.get(k, '<absent>')))
            else:
                diff_all(a[k], b[k], path + '.' + k, out)
    elif isinstance(a, list):
        if len(a) != len(b):
            out.append('%s: expected %d items, observed %d: %r vs %r' % (path, len(a), len(b), _brief(a), _brief(b)))
        else:
            for i, (x, y) in enumerate(zip(a, b)):
                diff_all(x, y, '%s[%d]' % (path, i), out)
    elif a != b:
        out.append('%s: expected %r, observed %r' % (path, a, b))
    return out


def _brief(lst):
    return [x.get('n', x.get('q', x.get('k'))) if isinstance(x, dict) else x for x in lst]


def diff_locus(d):
    """Signature part: the path of a diff with list indexes and names removed."""
    import re
    p = d.split(':', 1)[0]
    return re.sub(r'\[\d+\]', '[]', p)


# ---------------------------------------------------------------- C++ spelling rules (documented)
def cpp(t):
    inner = t['q']
    if t['t'] is not None:
        inner += '<' + ', '.join(cpp(p) for p in t['t']) + '>'
    if t.get('m') == '*':
        inner = 'std::shared_ptr<%s>' % inner
    elif t.get('m') == '@':
        inner += '*'
    elif t.get('m') == '&':
        inner += '&'
    return ('const ' if t.get('c') else '') + inner
