"""Common runner machinery: worker pool, violations, replays, evidence, known findings.

Every property module `vf.props.cXX` exposes

    ID, LEVEL                      property id and evidence level
    run(ctx) -> coverage dict      enumerates its bounded space through ctx.map(...)
    replay(case) -> [violations]   re-runs exactly one case (a plain function call)

All exploration is deterministic: VERIF_SEED only rotates identifier pools.
"""
import hashlib
import importlib
import json
import multiprocessing as mp
import os
import sys
import time
import traceback

VERIF = os.path.dirname(os.path.dirname(os.path.abspath(__file__)))
REPO = os.environ.get('VERIF_REPO', '/repo')
WORK = os.path.join(VERIF, '.work')
NPROC = int(os.environ.get('VERIF_JOBS', '16'))


def setup_repo():
    """Make `import gtwrap` resolve to the *current working tree* of /repo."""
    if sys.path[0] != REPO:
        sys.path.insert(0, REPO)
    os.environ.setdefault('BORGLAB_WRAP_VERIF', '1')
    tpl = os.path.join(REPO, 'gtwrap', 'matlab_wrapper', 'matlab_wrapper.tpl')
    if not os.path.exists(tpl):
        # git-ignored file that tests/test_matlab_wrapper.py::setUp writes
        with open(tpl, 'w') as f:
            f.write("#include <gtwrap/matlab.h>\n#include <map>\n")


def _init_worker():
    setup_repo()
    sys.setrecursionlimit(10000)


def _call(args):
    modname, fname, case = args
    try:
        # every case starts in /verif, whatever an earlier case (or the code under test) did to the working directory
        os.chdir(os.path.dirname(os.path.dirname(os.path.abspath(__file__))))
        mod = importlib.import_module(modname)
        return getattr(mod, fname)(case)
    except BaseException as e:  # a harness crash is reported loudly, never swallowed
        return {'harness_error': '%s: %s\n%s' % (type(e).__name__, e, traceback.format_exc()), 'case': case}


class Ctx:
    def __init__(self, prop, tier, seed):
        self.prop = prop
        self.tier = tier
        self.seed = seed
        self.violations = []      # list of dict(sig, msg, case)
        self.known_hits = {}      # sig -> count
        self.harness_errors = []
        self._pool = None
        self.t0 = time.time()
        self.known = load_known(prop)

    @property
    def thorough(self):
        return self.tier == 'thorough'

    def pool(self):
        if self._pool is None:
            self._pool = mp.get_context('fork').Pool(NPROC, initializer=_init_worker)
        return self._pool

    def map(self, fn, cases, chunksize=None):
        """Run module-level function `fn` on every case (in 16 fresh worker processes);
        yields (case, result) in order.  Results containing key 'viol' are harvested."""
        cases = list(cases)
        if not cases:
            return []
        if chunksize is None:
            chunksize = max(1, min(64, len(cases) // (NPROC * 8) or 1))
        args = [(fn.__module__, fn.__name__, c) for c in cases]
        out = []
        for c, r in zip(cases, self.pool().imap(_call, args, chunksize)):
            if isinstance(r, dict) and 'harness_error' in r:
                self.harness_errors.append(r)
                continue
            if isinstance(r, dict):
                for v in r.get('viol', ()):
                    self.add_violation(v['sig'], v['msg'], c)
            out.append((c, r))
        return out

    def add_violation(self, sig, msg, case):
        for k in self.known:
            if k.get('status') == 'open' and sig_match(k['signature'], sig):
                self.known_hits.setdefault(k['signature'], [k, 0, case])
                self.known_hits[k['signature']][1] += 1
                return
        self.violations.append({'sig': sig, 'msg': msg, 'case': case})

    def close(self):
        if self._pool is not None:
            self._pool.close()
            self._pool.join()
            self._pool = None


def sig_match(pattern, sig):
    """Known-finding signatures are literal strings in which '*' matches any run of characters."""
    parts = pattern.split('*')
    if len(parts) == 1:
        return pattern == sig
    if not sig.startswith(parts[0]):
        return False
    pos = len(parts[0])
    for p in parts[1:-1]:
        i = sig.find(p, pos)
        if i < 0:
            return False
        pos = i + len(p)
    return sig.endswith(parts[-1]) and len(sig) - len(parts[-1]) >= pos


def load_known(prop):
    p = os.path.join(VERIF, 'known_findings.json')
    if not os.path.exists(p):
        return []
    with open(p) as f:
        return [k for k in json.load(f)['findings'] if k['property'] == prop]


def write_replay(prop, v):
    d = os.path.join(VERIF, 'replays', prop)
    os.makedirs(d, exist_ok=True)
    blob = json.dumps({'property': prop, 'sig': v['sig'], 'msg': v['msg'], 'case': v['case']},
                      indent=1, sort_keys=True, default=str)
    h = hashlib.sha1(blob.encode()).hexdigest()[:12]
    path = os.path.join(d, h + '.json')
    with open(path, 'w') as f:
        f.write(blob)
    return path


def write_evidence(prop, level, tier, seed, coverage, assumptions, wall, nviol):
    os.makedirs(os.path.join(VERIF, 'evidence'), exist_ok=True)
    ev = {'property_id': prop, 'tier': tier, 'seed': seed, 'level': level,
          'coverage': coverage, 'assumptions': assumptions, 'wall_s': round(wall, 2),
          'violations': nviol}
    with open(os.path.join(VERIF, 'evidence', prop + '.json'), 'w') as f:
        json.dump(ev, f, indent=1, default=str)
    return ev


def main_run(prop, tier, seed):
    setup_repo()
    os.environ.setdefault('PYTHONHASHSEED', '0')
    mod = importlib.import_module('vf.props.' + prop.lower())
    ctx = Ctx(prop, tier, seed)
    try:
        coverage = mod.run(ctx)
    finally:
        ctx.close()
    wall = time.time() - ctx.t0
    rc = 0
    # harness errors are a broken check, not a property verdict: fail loudly (exit 2)
    if ctx.harness_errors:
        for h in ctx.harness_errors[:5]:
            print('HARNESS-ERROR property=%s %s' % (prop, h['harness_error'][:2000]))
            print('  case:', json.dumps(h.get('case'), default=str)[:500])
        rc = 2
    for sig, (k, n, case) in sorted(ctx.known_hits.items()):
        print('KNOWN-FINDING: property=%s %s [signature %s; %d case(s) in this run]' % (prop, k['what'], sig, n))
    # one replay per distinct signature (first = smallest, alphabets are simplest-first)
    seen = {}
    for v in ctx.violations:
        seen.setdefault(v['sig'], []).append(v)
    for sig, vs in seen.items():
        path = write_replay(prop, vs[0])
        print('VIOLATION property=%s replay=%s' % (prop, path))
        print('  signature: %s (%d case(s))' % (sig, len(vs)))
        print('  ' + str(vs[0]['msg'])[:1500].replace('\n', '\n  '))
        rc = rc or 1
    coverage.setdefault('known_findings_hit', sorted(ctx.known_hits))
    coverage.setdefault('violation_signatures', sorted(seen))
    write_evidence(prop, mod.LEVEL, tier, seed, coverage,
                   getattr(mod, 'ASSUMPTIONS', []), wall, len(ctx.violations))
    brief = {k: v for k, v in coverage.items() if isinstance(v, (int, float, bool))}
    print('%s tier=%s seed=%d wall=%.1fs %s' % (prop, tier, seed, wall, json.dumps(brief)))
    return rc


def main_replay(prop, path):
    setup_repo()
    mod = importlib.import_module('vf.props.' + prop.lower())
    with open(path) as f:
        rep = json.load(f)
    r1 = mod.replay(rep['case'])
    r2 = mod.replay(rep['case'])
    s1 = sorted(v['sig'] for v in r1)
    s2 = sorted(v['sig'] for v in r2)
    if s1 != s2:
        print('NONDETERMINISTIC replay: %s vs %s' % (s1, s2))
        return 2
    if not r1:
        print('replay: no violation on the current tree (recorded: %s)' % rep['sig'])
        return 0
    for v in r1:
        print('VIOLATION property=%s replay=%s' % (prop, path))
        print('  signature: %s' % v['sig'])
        print('  ' + str(v['msg'])[:3000].replace('\n', '\n  '))
    return 1
