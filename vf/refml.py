"""Reference model of a generated MATLAB toolbox (C10 / C15), written from the property statement.

expected_toolbox(module_spec, ignore, serialization) ->
    {'files': {relative path: descriptor}, 'collectors': [...], 'rtti': [...]}
observed_toolbox(tree) -> the same shape from the real output (mini-MATLAB parser + MEX scanner).
"""
from vf import refinst as R
from vf import gen, minimatlab as mm

SKIP_METHODS = ('serialize', 'serializable', 'pickle')


def pkg(path):
    return ''.join('+%s/' % p for p in path)


def expected_toolbox(module, ignore=(), serialization=False, module_name='mod'):
    inst = R.expected_instances(module)
    files = {}
    collectors = []
    rtti = []
    _walk(module, inst, [], set(ignore), serialization, files, collectors, rtti)
    files[module_name + '_wrapper.cpp'] = {'kind': 'mex'}
    return {'files': files, 'collectors': collectors, 'rtti': rtti}


def _walk(spec, scope, path, ignore, ser, files, collectors, rtti):
    spec_ns = [d for d in spec if d['k'] == 'ns']
    ns_i = iter(spec_ns)
    spec_classes = {d['n']: d for d in spec if d['k'] == 'class'}
    funcs = {}
    for i in list(scope['c']) + list(scope['td']):
        k = i['k']
        if k == 'ns':
            s = next(ns_i)
            _walk(s['c'], i, path + [s['n']], ignore, ser, files, collectors, rtti)
        elif k == 'class':
            qual = '::'.join(path + [i['n']])
            if qual in ignore:
                continue
            tag = ''.join(path) + i['n']
            if '<' in i['cpp']:
                # an instantiation is tagged with the namespaces of its *template* (they differ from `path` for a typedef
                # written in another namespace); the file still goes to the package of the scope that declares it
                tag = ''.join(i['cpp'].split('<')[0].split('::')[:-1]) + i['n']
            collectors.append((R.norm(i['cpp']) if '<' not in i['cpp'] else i['n'], tag))
            if i['v']:
                rtti.append(tag)
            methods = []
            for m in i['method']:
                base = m['call'].split('<')[0]
                if base in SKIP_METHODS:
                    continue
                if m['n'] not in methods:
                    methods.append(m['n'])
            statics = []
            for m in i['static']:
                if m['n'] in ('pickle',):
                    continue
                if m['n'] not in statics:
                    statics.append(m['n'])
            has_ser = ser and any(m['call'].split('<')[0] == 'serialize' for m in i['method'])
            base = i['b'].replace('::', '.') if i['b'] else 'handle'
            files[pkg(path) + i['n'] + '.m'] = {
                'kind': 'class', 'name': i['n'], 'base': base, 'ptr': 'ptr_' + tag,
                'props': [p['n'] for p in i['prop']], 'ctor_arities': sorted(a for c in i['ctor'] for a in _arities(c['a'])),
                'methods': sorted(methods), 'statics': sorted(statics), 'serialize': has_ser}
            for e in i.get('enum_full', []):
                files[pkg(path) + '+%s/%s.m' % (i['n'], e['n'])] = {'kind': 'enum', 'name': e['n'], 'enumerators': list(e['e'])}
        elif k == 'func':
            funcs.setdefault(i['n'], []).append(i)
        elif k == 'enum':
            files[pkg(path) + i['n'] + '.m'] = {'kind': 'enum', 'name': i['n'], 'enumerators': list(i['e'])}
    for name, overloads in funcs.items():
        files[pkg(path) + name + '.m'] = {'kind': 'function', 'name': name,
                                          'arities': sorted(a for o in overloads for a in _arities(o['a']))}


def _arities(args):
    """Arities offered by one signature: n, n-1, ..., n-k for k trailing defaults."""
    n = len(args)
    k = 0
    for a in reversed(args):
        if a['d'] is None:
            break
        k += 1
    return tuple(range(n, n - k - 1, -1))


def observed_toolbox(tree, module_name='mod'):
    files = {}
    problems = []
    for path, text in tree.items():
        if text is None:
            files[path] = {'kind': 'empty-dir'}
            continue
        if path.endswith('.cpp'):
            files[path] = {'kind': 'mex'}
            continue
        if not path.endswith('.m'):
            files[path] = {'kind': 'other'}
            continue
        try:
            ast = mm.parse_file(text, path)
        except mm.ParseError as e:
            files[path] = {'kind': 'unparsable', 'why': str(e)[:100]}
            continue
        if isinstance(ast, dict):
            if ast['enumeration'] or ast['base'] == 'uint32':
                vals = []
                for n, v in ast['enumeration']:
                    vals.append((n, int(v[1]) if v[0] == 'num' else None))
                d = {'kind': 'enum', 'name': ast['name'], 'enumerators': [n for n, _ in vals]}
                if [v for _, v in vals] != list(range(len(vals))):
                    d['values'] = [v for _, v in vals]
                if ast['base'] != 'uint32':
                    d['base'] = ast['base']
                files[path] = d
                continue
            names = [f['name'] for f in ast['methods']]
            props = [p for p, _ in ast['properties']]
            ctor = [f for f in ast['methods'] if f['name'] == ast['name']]
            ar = []
            if ctor:
                for st in ctor[0]['body']:
                    if st[0] == 'if':
                        for cond, body in st[1]:
                            f = mm.guard_facts(cond)
                            if f['count'] is not None and not f['key'] and 'uint64' not in repr(cond):
                                ar.append(f['count'])
            methods = [n for n in names if n not in (ast['name'], 'delete', 'display', 'disp', 'string_serialize', 'saveobj')
                       and not n.startswith('get.') and not n.startswith('set.')]
            statics = [f['name'] for f in ast['static'] if f['name'] not in ('string_deserialize', 'loadobj')]
            d = {'kind': 'class', 'name': ast['name'], 'base': ast['base'], 'ptr': props[0] if props else None,
                 'props': props[1:], 'ctor_arities': sorted(ar), 'methods': sorted(methods), 'statics': sorted(statics),
                 'serialize': 'string_serialize' in names}
            for need in ('delete', 'display', 'disp'):
                if names.count(need) != 1:
                    problems.append((path, 'expected exactly one %s, found %d' % (need, names.count(need))))
            if len(ctor) != 1:
                problems.append((path, 'expected exactly one constructor function, found %d' % len(ctor)))
            for p in props[1:]:
                if names.count('get.' + p) != 1 or names.count('set.' + p) != 1:
                    problems.append((path, 'property %s lacks exactly one getter and one setter' % p))
            for n in names:
                if (n.startswith('get.') or n.startswith('set.')) and n[4:] not in props[1:]:
                    problems.append((path, 'accessor %s for an undeclared property' % n))
            if len(set(names)) != len(names):
                problems.append((path, 'duplicate method functions %s' % sorted(n for n in set(names) if names.count(n) > 1)))
            sn = [f['name'] for f in ast['static']]
            if len(set(sn)) != len(sn):
                problems.append((path, 'duplicate static functions'))
            if d['serialize'] != ('string_deserialize' in sn):
                problems.append((path, 'string_serialize and string_deserialize do not come together'))
            if ast['properties'] and ast['properties'][0][1] != ('num', '0'):
                problems.append((path, 'pointer property not initialised to 0'))
            files[path] = d
        else:
            f = ast[1]
            ar = []
            for st in f['body']:
                if st[0] == 'if':
                    for cond, body in st[1]:
                        g = mm.guard_facts(cond)
                        if g['count'] is not None:
                            ar.append(g['count'])
            files[path] = {'kind': 'function', 'name': f['name'], 'arities': sorted(ar)}
    cppname = module_name + '_wrapper.cpp'
    collectors, rtti = [], []
    if cppname in tree:
        mex = gen.scan_mex(tree[cppname])
        for cpp_t, a, b, c in mex['collectors']:
            if not (a == b == c):
                problems.append((cppname, 'inconsistent collector declaration %s %s %s' % (a, b, c)))
            collectors.append((R.norm(cpp_t), a))
        dels = [a for a, b, c, d in mex['delete_blocks']]
        for a, b, c, d in mex['delete_blocks']:
            if not (a == b == c == d):
                problems.append((cppname, 'inconsistent clean-up block %s' % ((a, b, c, d),)))
        if sorted(dels) != sorted(a for _, a in collectors):
            problems.append((cppname, 'clean-up blocks %s do not match collectors %s' % (sorted(dels), sorted(a for _, a in collectors))))
        rtti = [m for _, m in mex['rtti']]
    return {'files': files, 'collectors': collectors, 'rtti': rtti, 'problems': problems}
