"""Drivers for the real generators and scanners for what they emit."""
import os
import re
import shutil
import tempfile

SCRATCH = '/dev/shm' if os.path.isdir('/dev/shm') and os.access('/dev/shm', os.W_OK) else None

PY_TEMPLATE = ("//INCLUDES\n{includes}\n//EXPORT\n{boost_class_export}\n//SUBMODULES\n{submodules}\n"
               "//DEF\n{module_def}\n//NAME\n{module_name}\n//INIT\n{submodules_init}\n//WRAPPED\n{wrapped_namespace}\n//END\n")


def mkdtemp(prefix='vf'):
    base = SCRATCH
    if base is None:
        from vf import core
        base = core.WORK
        os.makedirs(base, exist_ok=True)
    return tempfile.mkdtemp(prefix=prefix + '-', dir=base)


def pybind(text, top=('',), ignore=(), serialization=False, module_name='mod', template=PY_TEMPLATE,
           xml_source='', submodules=None, wrapper=None):
    from gtwrap.pybind_wrapper import PybindWrapper
    w = wrapper or PybindWrapper(module_name=module_name, top_module_namespaces=list(top),
                                 use_boost_serialization=serialization, ignore_classes=list(ignore),
                                 module_template=template, xml_source=xml_source)
    return w.wrap_file(text, module_name=module_name, submodules=submodules)


def pybind_sections(out):
    """Split output generated with PY_TEMPLATE into its named sections."""
    sec = {}
    cur = None
    for line in out.split('\n'):
        m = re.match(r'^//(INCLUDES|EXPORT|SUBMODULES|DEF|NAME|INIT|WRAPPED|END)$', line)
        if m:
            cur = m.group(1)
            sec[cur] = []
        elif cur:
            sec[cur].append(line)
    return {k: '\n'.join(v) for k, v in sec.items()}


def matlab(text, module_name='mod', ignore=(), serialization=False, top='', files=None, wrapper=None,
           keep_dir=None, names=None):
    """Run MatlabWrapper.wrap on real files in a scratch directory; return {relative path: content}."""
    from gtwrap.matlab_wrapper import MatlabWrapper
    d = keep_dir or mkdtemp('ml')
    try:
        src = os.path.join(d, 'src')
        out = os.path.join(d, 'out')
        os.makedirs(src, exist_ok=True)
        os.makedirs(out, exist_ok=True)
        paths = []
        for i, t in enumerate(files if files is not None else [text]):
            p = os.path.join(src, names[i] if names else 'f%d.i' % i)
            os.makedirs(os.path.dirname(p), exist_ok=True)
            with open(p, 'w') as f:
                f.write(t)
            paths.append(p)
        w = wrapper or MatlabWrapper(module_name=module_name, top_module_namespace=top,
                                     ignore_classes=list(ignore), use_boost_serialization=serialization)
        w.wrap(paths, path=out)
        return read_tree(out)
    finally:
        if keep_dir is None:
            shutil.rmtree(d, ignore_errors=True)


def read_tree(root):
    res = {}
    for dp, dn, fn in os.walk(root):
        for f in fn:
            p = os.path.join(dp, f)
            with open(p, 'rb') as fh:
                res[os.path.relpath(p, root)] = fh.read().decode('utf-8', 'replace')
        if not dn and not fn:
            res[os.path.relpath(dp, root) + '/'] = None
    return res


_parse_cache = {}
_orig_parse = None


def enable_parse_cache():
    """Memoise Module.parseString per input text inside this worker process and hand out deep copies.
    Parsing costs ~0.5 ms/char and is repeated for every option combination of the same text; the generators
    still run unchanged.  The first time a text is seen the caller may cross-check cached vs fresh output."""
    global _orig_parse
    import copy
    import gtwrap.interface_parser as ip
    if _orig_parse is not None:
        return
    _orig_parse = ip.Module.parseString

    def cached(s):
        # MatlabWrapper.wrap appends a newline to every file it reads: trailing newlines are not part of the key
        key = s.rstrip('\n')
        if key not in _parse_cache:
            if len(_parse_cache) > 64:
                _parse_cache.clear()
            _parse_cache[key] = _orig_parse(s)
        return copy.deepcopy(_parse_cache[key])
    ip.Module.parseString = staticmethod(cached)


def disable_parse_cache():
    global _orig_parse
    import gtwrap.interface_parser as ip
    if _orig_parse is not None:
        ip.Module.parseString = staticmethod(_orig_parse)
        _orig_parse = None


# ------------------------------------------------------------------ C++ statement splitter
def split_statements(code):
    """Split C++ text into statements at bracket depth 0 on ';' (string/char-literal and comment aware).
    Preprocessor lines are their own statements."""
    out = []
    cur = []
    depth = 0
    i = 0
    n = len(code)
    line_start = True
    while i < n:
        ch = code[i]
        if line_start and depth == 0 and not ''.join(cur).strip():
            j = i
            while j < n and code[j] in ' \t':
                j += 1
            if j < n and code[j] == '#':
                k = code.find('\n', j)
                k = n if k < 0 else k
                out.append(code[j:k].strip())
                i = k
                continue
        line_start = ch == '\n'
        if ch == '"' or ch == "'":
            q = ch
            j = i + 1
            while j < n and code[j] != q:
                if code[j] == '\\':
                    j += 1
                j += 1
            cur.append(code[i:j + 1])
            i = j + 1
            continue
        if code.startswith('//', i):
            k = code.find('\n', i)
            k = n if k < 0 else k
            i = k
            continue
        if code.startswith('/*', i):
            k = code.find('*/', i + 2)
            k = n if k < 0 else k + 2
            cur.append(code[i:k])
            i = k
            continue
        if ch in '([{':
            depth += 1
        elif ch in ')]}':
            depth -= 1
        cur.append(ch)
        if ch == ';' and depth == 0:
            s = ''.join(cur).strip()
            if s:
                out.append(s)
            cur = []
        i += 1
    s = ''.join(cur).strip()
    if s:
        out.append(s)
    return out


def split_top(s, sep=','):
    """Split on sep at bracket depth 0 (also <> aware when angle=True is not needed for call args)."""
    out, cur, depth, i, n = [], [], 0, 0, len(s)
    while i < n:
        ch = s[i]
        if ch in '"\'':
            j = i + 1
            while j < n and s[j] != ch:
                if s[j] == '\\':
                    j += 1
                j += 1
            cur.append(s[i:j + 1])
            i = j + 1
            continue
        if ch in '([{':
            depth += 1
        elif ch in ')]}':
            depth -= 1
        if ch == sep and depth == 0:
            out.append(''.join(cur))
            cur = []
        else:
            cur.append(ch)
        i += 1
    out.append(''.join(cur))
    return out


def match_bracket(s, i, open_='(', close=')'):
    """s[i] == open_; return index of the matching close (string aware)."""
    depth, n = 0, len(s)
    while i < n:
        ch = s[i]
        if ch in '"\'':
            j = i + 1
            while j < n and s[j] != ch:
                if s[j] == '\\':
                    j += 1
                j += 1
            i = j + 1
            continue
        if ch == open_:
            depth += 1
        elif ch == close:
            depth -= 1
            if depth == 0:
                return i
        i += 1
    return -1


def match_angle(s, i):
    """s[i] == '<' of a template argument list; return index of matching '>'."""
    depth = 0
    n = len(s)
    while i < n:
        ch = s[i]
        if ch == '<':
            depth += 1
        elif ch == '>':
            depth -= 1
            if depth == 0:
                return i
        elif ch in '(;{':
            return -1
        i += 1
    return -1


# ------------------------------------------------------------------ pybind scanner
def ws(s):
    return re.sub(r'\s+', ' ', s).strip()


def tight(s):
    """Whitespace-insensitive comparison form."""
    s = re.sub(r'\s+', ' ', s.strip())
    return re.sub(r'\s*([<>,:*&(){};=\[\]])\s*', r'\1', s)


def parse_call_chain(stmt, start):
    """stmt[start:] is a sequence of .name(args) calls possibly followed by ';'.  Returns list of
    (name, argtext) and the rest."""
    calls = []
    i = start
    n = len(stmt)
    while True:
        while i < n and stmt[i].isspace():
            i += 1
        if i < n and stmt[i] == '.':
            m = re.match(r'\.\s*(\w+)\s*\(', stmt[i:])
            if not m:
                break
            j = i + m.end() - 1
            k = match_bracket(stmt, j)
            if k < 0:
                return calls, stmt[i:]
            calls.append((m.group(1), stmt[j + 1:k]))
            i = k + 1
        else:
            break
    return calls, stmt[i:].strip()


def scan_lambda(arg):
    """Parse `[](params){body}` -> (params list of (type,name), body) or None."""
    a = arg.strip()
    m = re.match(r'^\[\s*\]\s*\(', a)
    if not m:
        return None
    j = m.end() - 1
    k = match_bracket(a, j)
    params = a[j + 1:k]
    rest = a[k + 1:].strip()
    if not rest.startswith('{'):
        return None
    e = match_bracket(rest, 0, '{', '}')
    body = rest[1:e]
    tail = rest[e + 1:].strip()
    plist = []
    for p in split_top_angle(params):
        p = p.strip()
        if not p:
            continue
        mm = re.match(r'^(.*?)(\w+)$', p, re.S)
        plist.append((tight(mm.group(1)), mm.group(2)))
    return plist, body.strip(), tail


def split_top_angle(s, sep=','):
    """Split on sep at depth 0 counting () [] {} and <> (for C++ parameter lists)."""
    out, cur, depth, i, n = [], [], 0, 0, len(s)
    while i < n:
        ch = s[i]
        if ch in '"\'':
            j = i + 1
            while j < n and s[j] != ch:
                if s[j] == '\\':
                    j += 1
                j += 1
            cur.append(s[i:j + 1])
            i = j + 1
            continue
        if ch in '([{<':
            depth += 1
        elif ch in ')]}>':
            depth -= 1
        if ch == sep and depth == 0:
            out.append(''.join(cur))
            cur = []
        else:
            cur.append(ch)
        i += 1
    out.append(''.join(cur))
    return out


def scan_pyargs(args):
    """From a list of trailing .def arguments return ([(name, default|None)], [other args])."""
    res, other = [], []
    for a in args:
        a = a.strip()
        m = re.match(r'^py::arg\(\s*"((?:[^"\\]|\\.)*)"\s*\)\s*(?:=\s*(.*))?$', a, re.S)
        if m:
            res.append((m.group(1), m.group(2).strip() if m.group(2) is not None else None))
        else:
            other.append(a)
    return res, other


def scan_def(name, argtext):
    """Classify one .def/.def_static/... call of a class or module."""
    args = [x for x in split_top(argtext)]
    # py::init<A, B>() contains top-level commas inside <>: re-join
    while args and args[0].lstrip().startswith('py::init') and len(args) > 1 and \
            args[0].count('<') > args[0].count('>'):
        args[0:2] = [args[0] + ',' + args[1]]
    rec = {'call': name, 'raw': ws(argtext)}
    first = args[0].strip() if args else ''
    if name in ('def', 'def_static'):
        m = re.match(r'^"((?:[^"\\]|\\.)*)"$', first)
        if m:
            rec['py'] = m.group(1)
            lam = scan_lambda(args[1]) if len(args) > 1 else None
            if lam:
                rec['kind'] = 'static' if name == 'def_static' else 'method'
                rec['params'], rec['body'], _ = lam
                rec['pyargs'], rec['extra'] = scan_pyargs(args[2:])
            else:
                rec['kind'] = 'memberptr'
                rec['target'] = tight(args[1]) if len(args) > 1 else ''
                rec['pyargs'], rec['extra'] = scan_pyargs(args[2:])
        elif first.startswith('py::init'):
            rec['kind'] = 'ctor'
            m = re.match(r'^py::init\s*<(.*)>\s*\(\s*\)$', first, re.S)
            rec['types'] = [tight(t) for t in split_top_angle(m.group(1))] if m and m.group(1).strip() else []
            rec['pyargs'], rec['extra'] = scan_pyargs(args[1:])
        elif first.startswith('py::pickle'):
            rec['kind'] = 'pickle'
        elif 'py::self' in first:
            rec['kind'] = 'operator'
            rec['expr'] = ws(first)
        else:
            rec['kind'] = 'unknown'
    elif name in ('def_readwrite', 'def_readonly'):
        m = re.match(r'^"((?:[^"\\]|\\.)*)"$', first)
        rec['kind'] = 'prop'
        rec['py'] = m.group(1) if m else None
        rec['writable'] = name == 'def_readwrite'
        rec['target'] = tight(args[1]) if len(args) > 1 else ''
    elif name == 'value':
        m = re.match(r'^"((?:[^"\\]|\\.)*)"$', first)
        rec['kind'] = 'enumerator'
        rec['py'] = m.group(1) if m else None
        rec['target'] = tight(args[1]) if len(args) > 1 else ''
    else:
        rec['kind'] = 'unknown'
    return rec


def scan_pybind(wrapped):
    """Scan the wrapped-namespace section into registration records (in order)."""
    recs = []
    for st in split_statements(wrapped):
        s = st.strip()
        m = re.match(r'^pybind11::module\s+(\w+)\s*=\s*(\w+)\s*\.\s*def_submodule\s*\(\s*"([^"]*)"\s*,\s*"([^"]*)"\s*\)\s*;$', s)
        if m:
            recs.append({'k': 'submodule', 'var': m.group(1), 'parent': m.group(2), 'py': m.group(3), 'stmt': ws(s)})
            continue
        m = re.match(r'^py::(class_|enum_)\s*<', s)
        if m:
            lt = s.index('<')
            gt = match_angle(s, lt)
            targs = split_top_angle(s[lt + 1:gt])
            rest = s[gt + 1:]
            var = None
            mm = re.match(r'^\s*(\w+)?\s*\(', rest)
            if mm and mm.group(1):
                var = mm.group(1)
            p = rest.index('(')
            q = match_bracket(rest, p)
            ctor_args = split_top(rest[p + 1:q])
            after = rest[q + 1:]
            rec = {'k': 'class' if m.group(1) == 'class_' else 'enum', 'cpp': tight(targs[0]),
                   'targs': [tight(t) for t in targs[1:]], 'module': ctor_args[0].strip(),
                   'py': ctor_args[1].strip().strip('"') if len(ctor_args) > 1 else None,
                   'ctor_extra': [ws(a) for a in ctor_args[2:]], 'var': var, 'stmt': ws(s)}
            members = []
            if var is not None:
                # `py::class_<..> var(m, "Name"); var.def(...)...;` : the chain is the next statement
                rec['members'] = members
                recs.append(rec)
                continue
            calls, tail = parse_call_chain(after, 0)
            for name, argtext in calls:
                members.append(scan_def(name, argtext))
            rec['members'] = members
            rec['tail'] = tail
            recs.append(rec)
            continue
        m = re.match(r'^(\w+)\s*\.\s*attr\s*\(\s*"([^"]*)"\s*\)\s*=\s*(.*);$', s, re.S)
        if m:
            recs.append({'k': 'attr', 'module': m.group(1), 'py': m.group(2), 'value': ws(m.group(3)), 'stmt': ws(s)})
            continue
        m = re.match(r'^(\w+)\s*(?=\.)', s)
        if m:
            calls, tail = parse_call_chain(s, m.end())
            if calls:
                # either module-level functions or the member chain of a named class variable
                target = None
                for r in reversed(recs):
                    if r['k'] == 'class' and r.get('var') == m.group(1):
                        target = r
                        break
                defs = [scan_def(n, a) for n, a in calls]
                if target is not None:
                    target['members'] += defs
                    target['tail'] = tail
                    target['stmt'] += ' ' + ws(s)
                else:
                    for d in defs:
                        d2 = dict(d)
                        d2.update({'k': 'function', 'module': m.group(1), 'stmt': ws(s), 'tail': tail})
                        recs.append(d2)
                continue
        recs.append({'k': 'unclassified', 'stmt': ws(s)})
    return recs


# ------------------------------------------------------------------ MEX C++ scanner
def scan_mex(cpp):
    """Scan <module>_wrapper.cpp: collectors, delete blocks, RTTI inserts, routines, switch cases."""
    res = {'includes': re.findall(r'^\s*#include\s*(\S+)', cpp, re.M)}
    res['typedefs'] = re.findall(r'^typedef (.+?) (\w+);$', cpp, re.M)
    res['collectors'] = re.findall(r'^typedef std::set<std::shared_ptr<(.+?)>\*> Collector_(\w+);\s*\nstatic Collector_(\w+) collector_(\w+);', cpp, re.M)
    m = re.search(r'void _deleteAllObjects\(\)\s*\{(.*?)\n\}\n', cpp, re.S)
    res['delete_blocks'] = re.findall(r'for\(Collector_(\w+)::iterator iter = collector_(\w+)\.begin\(\);\s*iter != collector_(\w+)\.end\(\); \) \{\s*delete \*iter;\s*collector_(\w+)\.erase\(iter\+\+\);', m.group(1) if m else '')
    res['rtti'] = re.findall(r'types\.insert\(std::make_pair\(typeid\((.+?)\)\.name\(\), "(.+?)"\)\);', cpp)
    res['boost_export'] = re.findall(r'BOOST_CLASS_EXPORT_GUID\((.+?), "(.+?)"\);', cpp)
    routines = {}
    order = []
    for m in re.finditer(r'^void (\w+)\s*\(int nargout, mxArray \*out\[\], int nargin, const mxArray \*in\[\]\)\s*\{?', cpp, re.M):
        name = m.group(1)
        if name == 'mexFunction':
            continue
        b = cpp.index('{', m.start())
        e = match_bracket(cpp, b, '{', '}')
        routines.setdefault(name, []).append(cpp[b + 1:e])
        order.append(name)
    res['routines'] = routines
    res['routine_order'] = order
    cases = []
    mf = cpp.find('void mexFunction(')
    if mf >= 0:
        for m in re.finditer(r'case (\d+):\s*((?:.(?!case \d+:))*?)break;', cpp[mf:], re.S):
            calls = re.findall(r'(\w+)\(nargout, out, nargin-1, in\+1\);', m.group(2))
            cases.append((int(m.group(1)), calls))
    res['cases'] = cases
    return res


def m_call_sites(text, module_name='mod'):
    """All `<module>_wrapper(<id>, ...)` call sites in a .m file: list of (id, line)."""
    out = []
    for line in text.split('\n'):
        for m in re.finditer(r'\b%s_wrapper\((\d+)' % re.escape(module_name), line):
            out.append((int(m.group(1)), line.strip()))
    return out
