// C11 driver: the generated gateway (mod_wrapper.cpp, #included so that its static collectors are visible) + the real
// matlab.h + the mock MEX API + an instrumented library, driven over a line protocol on stdin/stdout.
//
//   CALL <nargout> <n> v1 .. vn     -> RETURN <k> v1 .. vk   |  ERROR <hex msg>
//   ATEXIT                          -> RETURN 0               (runs the mexAtExit callbacks: "clear mex")
//   STATS                           -> STATS <json>           (collector sizes, live library objects, call trace)
// While a CALL runs, a nested mexCallMATLAB is forwarded to the MATLAB side:
//   CALLBACK <nargout> <name> <n> v1 .. vn ; the driver then serves nested CALLs until it reads
//   RESULT <k> v1 .. vk   |  RERROR <hex msg>
// Value tokens: D:<m>:<n>:<hex doubles>  U64:<dec>  I32:<dec>  L:<0|1>  C:<hex chars>  O|<class>|<id>|name=tok;name=tok
#include MOD_WRAPPER_CPP
#include STATS_INC      // generated: static std::string vf_stats_json() { collector sizes, live objects, trace }
#include <cstring>
#include <cstdio>
#include <unistd.h>
#include <iostream>
#include <sstream>

// The generated mexFunction redirects std::cout into mexPrintf while it runs, so the protocol uses its own stream.
static FILE* g_proto = nullptr;
static std::streambuf* g_cout_buf = nullptr;
static void emit(const std::string& line) { fputs(line.c_str(), g_proto); fputc('\n', g_proto); fflush(g_proto); }

static std::string hex(const std::string& s) { static const char* d = "0123456789abcdef"; std::string o; for (unsigned char c : s) { o += d[c >> 4]; o += d[c & 15]; } return o.empty() ? "-" : o; }
static std::string unhex(const std::string& h) { if (h == "-") return ""; std::string o; for (size_t i = 0; i + 1 < h.size(); i += 2) o += (char)strtol(h.substr(i, 2).c_str(), nullptr, 16); return o; }

static std::string encode(const mxArray* a) {
  if (!a) return "NULL";
  std::ostringstream o;
  switch (a->cls) {
    case mxDOUBLE_CLASS: { o << "D:" << a->m << ":" << a->n << ":" << hex(std::string((const char*)a->data.data(), a->m * a->n * 8)); break; }
    case mxUINT64_CLASS: { uint64_t v; memcpy(&v, a->data.data(), 8); o << "U64:" << v; break; }
    case mxINT32_CLASS: { int32_t v; memcpy(&v, a->data.data(), 4); o << "I32:" << v; break; }
    case mxLOGICAL_CLASS: o << "L:" << (int)(a->data[0] != 0); break;
    case mxCHAR_CLASS: o << "C:" << hex(std::string((const char*)a->data.data(), a->m * a->n)); break;
    case mxOBJECT_CLASS: {
      o << "O|" << a->class_name << "|" << a->object_id << "|";
      bool first = true;
      for (auto& kv : a->props) { if (!first) o << ";"; first = false; o << kv.first << "=" << encode(kv.second); }
      break;
    }
    default: o << "X:" << (int)a->cls;
  }
  return o.str();
}
static mxArray* decode(const std::string& t) {
  if (t.rfind("D:", 0) == 0) {
    size_t p1 = t.find(':', 2), p2 = t.find(':', p1 + 1);
    size_t m = std::stoul(t.substr(2, p1 - 2)), n = std::stoul(t.substr(p1 + 1, p2 - p1 - 1));
    mxArray* a = mxCreateDoubleMatrix(m, n, mxREAL); std::string raw = unhex(t.substr(p2 + 1)); memcpy(a->data.data(), raw.data(), raw.size()); return a;
  }
  if (t.rfind("U64:", 0) == 0) { mxArray* a = mxCreateNumericMatrix(1, 1, mxUINT64_CLASS, mxREAL); uint64_t v = std::stoull(t.substr(4)); memcpy(a->data.data(), &v, 8); return a; }
  if (t.rfind("I32:", 0) == 0) { mxArray* a = mxCreateNumericMatrix(1, 1, mxINT32_CLASS, mxREAL); int32_t v = std::stoi(t.substr(4)); memcpy(a->data.data(), &v, 4); return a; }
  if (t.rfind("L:", 0) == 0) { mxArray* a = mxCreateNumericMatrix(1, 1, mxLOGICAL_CLASS, mxREAL); a->data[0] = t[2] == '1'; return a; }
  if (t.rfind("C:", 0) == 0) { return mxCreateString(unhex(t.substr(2)).c_str()); }
  if (t.rfind("O|", 0) == 0) {
    size_t p1 = t.find('|', 2), p2 = t.find('|', p1 + 1);
    mxArray* a = mockmex::make_object(t.substr(2, p1 - 2), std::stol(t.substr(p1 + 1, p2 - p1 - 1)));
    std::string rest = t.substr(p2 + 1);
    size_t i = 0;
    while (i < rest.size()) {
      size_t e = rest.find(';', i); if (e == std::string::npos) e = rest.size();
      std::string kv = rest.substr(i, e - i); size_t q = kv.find('=');
      if (q != std::string::npos) a->props[kv.substr(0, q)] = decode(kv.substr(q + 1));
      i = e + 1;
    }
    return a;
  }
  throw MexError("driver", "cannot decode value " + t);
}

static void handle_call(std::istringstream& in);

static int call_matlab(int nlhs, mxArray* plhs[], int nrhs, mxArray* prhs[], const char* name) {
  { std::ostringstream o; o << "CALLBACK " << nlhs << " " << name << " " << nrhs;
    for (int i = 0; i < nrhs; ++i) o << " " << encode(prhs[i]);
    emit(o.str()); }
  std::string line;
  while (std::getline(std::cin, line)) {
    std::istringstream in(line);
    std::string cmd; in >> cmd;
    if (cmd == "CALL") { handle_call(in); continue; }
    if (cmd == "RESULT") {
      int k; in >> k;
      for (int i = 0; i < k; ++i) { std::string t; in >> t; mxArray* v = decode(t); if (i < nlhs || (i == 0 && nlhs == 0)) plhs[i] = v; }
      if (k < nlhs) throw MexError("driver", "MATLAB side returned too few outputs");
      return 0;
    }
    if (cmd == "RERROR") { std::string h; in >> h; throw MexError("matlab", unhex(h)); }
    throw MexError("driver", "unexpected line while waiting for a callback result: " + line);
  }
  throw MexError("driver", "stdin closed inside a callback");
}

static void handle_call(std::istringstream& in) {
  int nargout, n; in >> nargout >> n;
  std::vector<mxArray*> args;
  for (int i = 0; i < n; ++i) { std::string t; in >> t; args.push_back(decode(t)); }
  std::vector<const mxArray*> cargs(args.begin(), args.end());
  mxArray* out[8] = {nullptr, nullptr, nullptr, nullptr, nullptr, nullptr, nullptr, nullptr};
  try {
    mexFunction(nargout, out, n, cargs.data());
    int k = 0; while (k < 8 && out[k]) ++k;
    std::ostringstream o; o << "RETURN " << k;
    for (int i = 0; i < k; ++i) o << " " << encode(out[i]);
    emit(o.str());
  } catch (const MexError& e) {
    std::cout.rdbuf(g_cout_buf);   // mexErrMsgTxt leaves mexFunction without restoring its cout redirection
    emit("ERROR " + hex(std::string(e.what())));
  } catch (const std::exception& e) {
    std::cout.rdbuf(g_cout_buf);
    emit("ERROR " + hex(std::string("c++ exception: ") + e.what()));
  }
}


int main() {
  mockmex::set_call_matlab_hook(call_matlab);
  g_proto = fdopen(dup(1), "w");
  g_cout_buf = std::cout.rdbuf();
  std::string line;
  while (std::getline(std::cin, line)) {
    std::istringstream in(line);
    std::string cmd; in >> cmd;
    if (cmd == "CALL") handle_call(in);
    else if (cmd == "ATEXIT") { try { mockmex::run_at_exit(); emit("RETURN 0"); } catch (const std::exception& e) { emit("ERROR " + hex(e.what())); } }
    else if (cmd == "STATS") emit("STATS " + vf_stats_json());
    else if (cmd == "QUIT") break;
    else emit("ERROR " + hex("unknown command " + cmd));
  }
  return 0;
}
