#include "mex.h"
#include <cstdarg>
#include <cstdio>
#include <cstring>
#include <cstdlib>
#include <set>

static std::map<std::string, mxArray*> g_workspace;
static std::vector<void (*)()> g_atexit;
static mockmex::CallMatlabHook g_hook = nullptr;
static long g_live = 0;
static std::string g_printed;

static size_t elem_size(mxClassID c) {
  switch (c) {
    case mxDOUBLE_CLASS: case mxINT64_CLASS: case mxUINT64_CLASS: return 8;
    case mxSINGLE_CLASS: case mxINT32_CLASS: case mxUINT32_CLASS: return 4;
    case mxINT16_CLASS: case mxUINT16_CLASS: return 2;
    case mxCHAR_CLASS: return 1;   // matlab.h "relies on mxChar==char"
    default: return 1;
  }
}
static mxArray* new_array(mxClassID c, size_t m, size_t n) {
  mxArray* a = new mxArray();
  a->cls = c; a->m = m; a->n = n;
  a->data.assign(m * n * elem_size(c) + 16, 0);   // zero-initialised, like MATLAB; small slack keeps scalar type punning in bounds
  ++g_live;
  return a;
}

extern "C" {
void mexErrMsgIdAndTxt(const char* id, const char* msg, ...) { throw MexError(id ? id : "", msg ? msg : ""); }
void mexErrMsgTxt(const char* msg) { throw MexError("", msg ? msg : ""); }
int mexPrintf(const char* fmt, ...) {
  char buf[4096]; va_list ap; va_start(ap, fmt); int n = vsnprintf(buf, sizeof buf, fmt, ap); va_end(ap);
  g_printed += buf; return n;
}
mxArray* mxCreateNumericArray(mwSize ndim, const mwSize* dims, mxClassID classid, mxComplexity) {
  size_t m = ndim >= 1 ? dims[0] : 1, n = 1;
  for (size_t i = 1; i < ndim; ++i) n *= dims[i];
  return new_array(classid, m, n);
}
mxArray* mxCreateNumericMatrix(mwSize m, mwSize n, mxClassID classid, mxComplexity) { return new_array(classid, m, n); }
mxArray* mxCreateDoubleMatrix(mwSize m, mwSize n, mxComplexity) { return new_array(mxDOUBLE_CLASS, m, n); }
mxArray* mxCreateDoubleScalar(double v) { mxArray* a = new_array(mxDOUBLE_CLASS, 1, 1); memcpy(a->data.data(), &v, 8); return a; }
mxArray* mxCreateString(const char* s) {
  size_t n = strlen(s); mxArray* a = new_array(mxCHAR_CLASS, n ? 1 : 0, n); if (n) memcpy(a->data.data(), s, n); return a;
}
mxArray* mxCreateStructMatrix(mwSize m, mwSize n, int nfields, const char** names) {
  mxArray* a = new_array(mxSTRUCT_CLASS, m, n);
  for (int i = 0; i < nfields; ++i) { a->field_names.push_back(names[i]); a->field_values.push_back(nullptr); }
  return a;
}
mxArray* mxDuplicateArray(const mxArray* a) {
  mxArray* b = new mxArray(*a); ++g_live;
  for (auto& v : b->field_values) if (v) v = mxDuplicateArray(v);
  for (auto& kv : b->props) if (kv.second) kv.second = mxDuplicateArray(kv.second);
  return b;
}
void mxDestroyArray(mxArray* a) {
  if (!a) return;
  for (auto v : a->field_values) mxDestroyArray(v);
  for (auto& kv : a->props) mxDestroyArray(kv.second);
  --g_live; delete a;
}
size_t mxGetM(const mxArray* a) { return a->m; }
size_t mxGetN(const mxArray* a) { return a->n; }
void* mxGetData(const mxArray* a) { return (void*)a->data.data(); }
double* mxGetPr(const mxArray* a) { return (double*)a->data.data(); }
double mxGetScalar(const mxArray* a) {
  if (a->m * a->n == 0) throw MexError("mock:mxGetScalar", "mxGetScalar on an empty array");
  const unsigned char* p = a->data.data();
  switch (a->cls) {
    case mxDOUBLE_CLASS: { double v; memcpy(&v, p, 8); return v; }
    case mxSINGLE_CLASS: { float v; memcpy(&v, p, 4); return v; }
    case mxINT8_CLASS: return (double)*(const int8_t*)p;
    case mxUINT8_CLASS: return (double)*(const uint8_t*)p;
    case mxINT16_CLASS: { int16_t v; memcpy(&v, p, 2); return v; }
    case mxUINT16_CLASS: { uint16_t v; memcpy(&v, p, 2); return v; }
    case mxINT32_CLASS: { int32_t v; memcpy(&v, p, 4); return v; }
    case mxUINT32_CLASS: { uint32_t v; memcpy(&v, p, 4); return v; }
    case mxINT64_CLASS: { int64_t v; memcpy(&v, p, 8); return (double)v; }
    case mxUINT64_CLASS: { uint64_t v; memcpy(&v, p, 8); return (double)v; }
    case mxLOGICAL_CLASS: return (double)(*p != 0);
    case mxCHAR_CLASS: return (double)*p;
    default: throw MexError("mock:mxGetScalar", "mxGetScalar on a non-numeric array");
  }
}
mxClassID mxGetClassID(const mxArray* a) { return a->cls; }
bool mxIsDouble(const mxArray* a) { return a->cls == mxDOUBLE_CLASS; }
bool mxIsComplex(const mxArray* a) { return a->complex_; }
char* mxArrayToString(const mxArray* a) {
  if (a->cls != mxCHAR_CLASS) return nullptr;
  size_t n = a->m * a->n; char* s = (char*)malloc(n + 1); memcpy(s, a->data.data(), n); s[n] = 0; return s;
}
int mxGetString(const mxArray* a, char* buf, mwSize buflen) {
  if (a->cls != mxCHAR_CLASS) return 1;
  size_t n = a->m * a->n; if (n + 1 > buflen) { memcpy(buf, a->data.data(), buflen - 1); buf[buflen - 1] = 0; return 1; }
  memcpy(buf, a->data.data(), n); buf[n] = 0; return 0;
}
void mxFree(void* p) { free(p); }
mxArray* mxGetProperty(const mxArray* a, mwIndex, const char* name) {
  auto it = a->props.find(name);
  if (it == a->props.end() || !it->second) {
    // MATLAB returns NULL for a missing property; matlab.h dereferences the result, which would crash MATLAB:
    throw MexError("mock:mxGetProperty", std::string("object of class '") + a->class_name + "' has no property '" + name + "'");
  }
  return mxDuplicateArray(it->second);     // MATLAB returns a copy
}
int mxAddField(mxArray* a, const char* name) {
  for (size_t i = 0; i < a->field_names.size(); ++i) if (a->field_names[i] == name) return (int)i;
  a->field_names.push_back(name); a->field_values.push_back(nullptr); return (int)a->field_names.size() - 1;
}
void mxSetFieldByNumber(mxArray* a, mwIndex, int field, mxArray* v) {
  if (a->field_values[field]) mxDestroyArray(a->field_values[field]);
  a->field_values[field] = v;
}
mxArray* mxGetField(const mxArray* a, mwIndex, const char* name) {
  for (size_t i = 0; i < a->field_names.size(); ++i) if (a->field_names[i] == name) return a->field_values[i];
  return nullptr;
}
const mxArray* mexGetVariablePtr(const char*, const char* name) { auto it = g_workspace.find(name); return it == g_workspace.end() ? nullptr : it->second; }
mxArray* mexGetVariable(const char*, const char* name) { auto it = g_workspace.find(name); return it == g_workspace.end() ? nullptr : mxDuplicateArray(it->second); }
int mexPutVariable(const char*, const char* name, const mxArray* v) {
  auto it = g_workspace.find(name); if (it != g_workspace.end()) mxDestroyArray(it->second);
  g_workspace[name] = mxDuplicateArray(v); return 0;
}
int mexCallMATLAB(int nlhs, mxArray* plhs[], int nrhs, mxArray* prhs[], const char* name) {
  if (!g_hook) throw MexError("mock:mexCallMATLAB", std::string("no MATLAB side attached for call to ") + name);
  return g_hook(nlhs, plhs, nrhs, prhs, name);
}
void mexMakeArrayPersistent(mxArray*) {}
void mexMakeMemoryPersistent(void*) {}
void mexLock(void) {}
void mexUnlock(void) {}
int mexAtExit(void (*fn)(void)) { for (auto f : g_atexit) if (f == fn) return 0; g_atexit.push_back(fn); return 0; }
}  // extern "C"

namespace mockmex {
void set_call_matlab_hook(CallMatlabHook h) { g_hook = h; }
void run_at_exit() { std::vector<void (*)()> fs; fs.swap(g_atexit); for (auto f : fs) f(); }
void clear_workspace() { for (auto& kv : g_workspace) mxDestroyArray(kv.second); g_workspace.clear(); }
long live_arrays() { return g_live; }
std::string printed() { std::string s; s.swap(g_printed); return s; }
mxArray* make_object(const std::string& cls, long id) { mxArray* a = new_array(mxOBJECT_CLASS, 1, 1); a->class_name = cls; a->object_id = id; return a; }
}
