// C18 driver: exhaustive value round trips, error cases and a handle-protocol exploration against the REAL matlab.h
// (included through gtwrap/matlab.h, generated per run to point at /repo/matlab.h) on top of the mock MEX API.
#include <gtwrap/matlab.h>
#include <climits>
#include <cfloat>
#include <cmath>
#include <cstring>
#include <functional>
#include <iostream>
#include <memory>
#include <sstream>

static long g_checks = 0, g_fail = 0;
static void fail(const std::string& cat, const std::string& detail) {
  ++g_fail;
  std::cout << "FAIL " << cat << " | " << detail << "\n";
}
#define CHECKED(expr) do { ++g_checks; expr; } while (0)

template <typename T> static std::string show(const T& v) { std::ostringstream o; o << v; return o.str(); }
static std::string showstr(const std::string& s) {
  std::ostringstream o; o << "len" << s.size() << ":";
  for (unsigned char c : s) { char b[8]; snprintf(b, sizeof b, "%02x", c); o << b; }
  return o.str();
}

template <typename T> static void roundtrip_scalar(const char* tname, T v, const std::string& cls) {
  ++g_checks;
  mxArray* a = nullptr;
  try {
    a = wrap<T>(v);
    if (mxGetM(a) != 1 || mxGetN(a) != 1) fail(std::string("roundtrip-shape|") + tname, "wrap gives " + show(mxGetM(a)) + "x" + show(mxGetN(a)));
    T back = unwrap<T>(a);
    if (memcmp(&back, &v, sizeof(T)) != 0) fail(std::string("roundtrip-value|") + tname + "|" + cls, "in " + show((long double)v) + " out " + show((long double)back));
  } catch (const std::exception& e) {
    fail(std::string("roundtrip-raises|") + tname + "|" + cls, e.what());
  }
  if (a) mxDestroyArray(a);
}

template <typename T> static void must_raise(const char* what, const char* shape, mxArray* a) {
  ++g_checks;
  bool raised = false;
  try { (void)unwrap<T>(a); } catch (const MexError&) { raised = true; } catch (const std::exception&) { raised = true; }
  if (!raised) fail(std::string("no-error|") + what, std::string("unwrap of ") + shape + " returned a value");
  mxDestroyArray(a);
}

static mxArray* dbl(size_t m, size_t n) { mxArray* a = mxCreateDoubleMatrix(m, n, mxREAL); double* p = mxGetPr(a); for (size_t i = 0; i < m * n; ++i) p[i] = 1.5 + i; return a; }
static mxArray* arr(mxClassID c, size_t m, size_t n) { return mxCreateNumericMatrix(m, n, c, mxREAL); }

// ------------------------------------------------------------------ handles
struct Obj { int tag; static int alive; explicit Obj(int t) : tag(t) { ++alive; } virtual ~Obj() { --alive; } };
int Obj::alive = 0;
static long g_next_object = 1;
static std::vector<std::shared_ptr<Obj>*> g_collector;     // what collector_<C>.insert(self) does

static int matlab_side(int nlhs, mxArray* plhs[], int nrhs, mxArray* prhs[], const char* name) {
  std::string n = name;
  if (n == "int32") {            // used by unwrap_enum
    mxArray* r = mxCreateNumericMatrix(1, 1, mxINT32_CLASS, mxREAL);
    *(int32_t*)mxGetData(r) = (int32_t)mxGetScalar(prhs[0]); plhs[0] = r; return 0;
  }
  if (n.rfind("enum.", 0) == 0) { // enumeration class constructor: keeps the numeric value
    mxArray* r = mockmex::make_object(n, g_next_object++);
    r->props["value"] = mxDuplicateArray(prhs[0]); plhs[0] = r; return 0;
  }
  if (n == "Obj") {               // what a generated classdef constructor does with (key, ptr[, 'void'])
    if (nrhs < 2 || mxGetClassID(prhs[0]) != mxUINT64_CLASS || *(uint64_t*)mxGetData(prhs[0]) != 5139824614673773682ULL)
      throw MexError("test", "constructor called without the pointer key");
    std::shared_ptr<Obj>* self;
    if (nrhs == 2) {
      self = *reinterpret_cast<std::shared_ptr<Obj>**>(mxGetData(prhs[1]));
    } else {                      // virtual: up-cast from shared_ptr<void>, as <Class>_upcastFromVoid does
      std::shared_ptr<void>* asVoid = *reinterpret_cast<std::shared_ptr<void>**>(mxGetData(prhs[1]));
      self = new std::shared_ptr<Obj>(std::static_pointer_cast<Obj>(*asVoid));
    }
    g_collector.push_back(self);
    mxArray* r = mockmex::make_object("Obj", g_next_object++);
    mxArray* p = mxCreateNumericMatrix(1, 1, mxUINT32OR64_CLASS, mxREAL);
    *reinterpret_cast<std::shared_ptr<Obj>**>(mxGetData(p)) = self;
    r->props["ptr_Obj"] = p; plhs[0] = r; return 0;
  }
  throw MexError("test", "unexpected mexCallMATLAB(" + n + ")");
}

static void delete_handle(mxArray* h) {   // what <Class>_deconstructor does
  mxArray* p = mxGetProperty(h, 0, "ptr_Obj");
  std::shared_ptr<Obj>* self = *reinterpret_cast<std::shared_ptr<Obj>**>(mxGetData(p));
  mxDestroyArray(p);
  for (size_t i = 0; i < g_collector.size(); ++i) if (g_collector[i] == self) { g_collector.erase(g_collector.begin() + i); break; }
  delete self;
  mxDestroyArray(h);
}

// operations: 0 wrap obj0 (non-virtual)  1 wrap obj1 (non-virtual)  2 wrap obj0 (virtual)  3 wrap obj1 (virtual)
//             4 drop owner 0   5 drop owner 1   6 delete oldest live handle   7 delete newest live handle
//             8 unwrap_shared_ptr on every live handle   9 unwrap_ptr on every live handle
static long g_seq = 0, g_states = 0;
static std::set<std::string> g_state_set;
static void run_sequence(const std::vector<int>& ops) {
  ++g_seq;
  {
    std::shared_ptr<Obj> owner[2] = {std::make_shared<Obj>(100), std::make_shared<Obj>(200)};
    Obj* raw[2] = {owner[0].get(), owner[1].get()};
    std::vector<std::pair<mxArray*, int>> handles;   // (handle, object index)
    std::string seq;
    for (int op : ops) {
      seq += char('0' + op);
      try {
        if (op <= 3) {
          int k = op & 1;
          if (!owner[k]) continue;                   // nothing to wrap any more
          mxArray* h = wrap_shared_ptr(owner[k], "Obj", op >= 2);
          handles.push_back({h, k});
        } else if (op == 4 || op == 5) {
          owner[op - 4].reset();
        } else if (op == 6 || op == 7) {
          if (handles.empty()) continue;
          size_t i = op == 6 ? 0 : handles.size() - 1;
          delete_handle(handles[i].first);
          handles.erase(handles.begin() + i);
        } else if (op == 8) {
          for (auto& h : handles) {
            ++g_checks;
            std::shared_ptr<Obj> p = unwrap_shared_ptr<Obj>(h.first, "ptr_Obj");
            if (p.get() != raw[h.second]) fail("handle|unwrap_shared_ptr-wrong-object", "sequence " + seq);
          }
          // the same handles as MATLAB passes them to a gateway: one after the other in a temporary argument header
          // whose address is reused from call to call
          for (auto& h : handles) {
            static mxArray* header = new mxArray();
            *header = *h.first;
            ++g_checks;
            std::shared_ptr<Obj> p2 = unwrap_shared_ptr<Obj>(header, "ptr_Obj");
            if (p2.get() != raw[h.second]) fail("handle|unwrap_shared_ptr-wrong-object-through-recycled-header", "sequence " + seq);
            Obj* p3 = unwrap_ptr<Obj>(header, "ptr_Obj");
            if (p3 != raw[h.second]) fail("handle|unwrap_ptr-wrong-object-through-recycled-header", "sequence " + seq);
          }
        } else if (op == 9) {
          for (auto& h : handles) {
            ++g_checks;
            Obj* p = unwrap_ptr<Obj>(h.first, "ptr_Obj");
            if (p != raw[h.second]) fail("handle|unwrap_ptr-wrong-object", "sequence " + seq);
          }
        }
      } catch (const std::exception& e) {
        fail("handle|raises", "sequence " + seq + ": " + e.what());
      }
      // invariant: an object is alive exactly as long as a handle or the C++ owner exists
      int expect_alive = 0;
      for (int k = 0; k < 2; ++k) {
        bool has = (bool)owner[k];
        for (auto& h : handles) if (h.second == k) has = true;
        if (has) ++expect_alive;
      }
      ++g_checks;
      if (Obj::alive != expect_alive) fail("handle|liveness", "sequence " + seq + ": " + show(Obj::alive) + " objects alive, expected " + show(expect_alive));
      std::ostringstream st; st << (bool)owner[0] << (bool)owner[1] << "|"; for (auto& h : handles) st << h.second; g_state_set.insert(st.str());
    }
    // tear down: delete remaining handles, owners go out of scope
    for (auto& h : handles) delete_handle(h.first);
  }
  ++g_checks;
  if (Obj::alive != 0) { fail("handle|leak-after-teardown", "objects alive " + show(Obj::alive)); Obj::alive = 0; }
  if (!g_collector.empty()) { fail("handle|collector-not-empty", ""); g_collector.clear(); }
}
static void explore(std::vector<int>& ops, int depth, int maxdepth) {
  if (depth > 0) run_sequence(ops);
  if (depth == maxdepth) return;
  for (int op = 0; op < 10; ++op) { ops.push_back(op); explore(ops, depth + 1, maxdepth); ops.pop_back(); }
}

enum Color { Red = 0, Green = 1, Blue = 7 };

int main(int argc, char** argv) {
  int strlen_max = argc > 1 ? atoi(argv[1]) : 3;
  int hdepth = argc > 2 ? atoi(argv[2]) : 5;
  mockmex::set_call_matlab_hook(matlab_side);
  {   // what a generated _<module>_RTTIRegister() does for a virtual class Obj
    const char* fields[1]; std::string tn = typeid(Obj).name(); fields[0] = tn.c_str();
    mxArray* reg = mxCreateStructMatrix(1, 1, 1, fields);
    mxSetFieldByNumber(reg, 0, 0, mxCreateString("Obj"));
    mexPutVariable("global", "gtsamwrap_rttiRegistry", reg);
    mxDestroyArray(reg);
  }
  // ---------------- scalars
  roundtrip_scalar<bool>("bool", false, "all"); roundtrip_scalar<bool>("bool", true, "all");
  for (int c = 0; c < 256; ++c) { roundtrip_scalar<char>("char", (char)c, c < 128 ? "ascii" : "high"); roundtrip_scalar<unsigned char>("unsigned char", (unsigned char)c, c < 128 ? "ascii" : "high"); }
  for (long v = -65536; v <= 65536; ++v) roundtrip_scalar<int>("int", (int)v, v < 0 ? "negative" : "non-negative");
  for (int v : {INT_MIN, INT_MIN + 1, -65537, 65537, INT_MAX - 1, INT_MAX, 1 << 24, -(1 << 24), (1 << 30) + 7}) roundtrip_scalar<int>("int", v, v < 0 ? "negative-boundary" : "boundary");
  for (size_t v : {(size_t)0, (size_t)1, ((size_t)1 << 31) - 1, ((size_t)1 << 31) + 1, ((size_t)1 << 32) - 1, ((size_t)1 << 32) + 1, ((size_t)1 << 53) - 1, ((size_t)1 << 53) + 1, (size_t)1 << 63, (size_t)-1})
    roundtrip_scalar<size_t>("size_t", v, v > ((size_t)1 << 53) ? "above-2^53" : "small");
  for (double v : {0.0, -0.0, 4.9406564584124654e-324, DBL_MIN, DBL_MAX, -DBL_MAX, (double)INFINITY, -(double)INFINITY, (double)NAN, 1.0 / 3.0,
                   9007199254740993.0, -9007199254740991.0, 1e-300, 123456.789})
    roundtrip_scalar<double>("double", v, "all");
  // ---------------- strings
  {
    const char alphabet[] = {'a', ' ', '\n', '"', (char)0xFF, '\0'};
    std::vector<std::string> all = {""};
    size_t from = 0;
    for (int L = 1; L <= strlen_max; ++L) {
      size_t to = all.size();
      for (size_t i = from; i < to; ++i) for (char c : alphabet) all.push_back(all[i] + std::string(1, c));
      from = to;
    }
    // long strings: lengths around powers of two (a fixed-size intermediate buffer would show here)
    for (size_t len : {255u, 256u, 257u, 1023u, 1024u, 1025u, 4095u, 4096u, 4097u, 65535u, 65536u, 65537u, 1000000u}) {
      std::string s(len, 'x'); for (size_t i = 0; i < len; i += 7) s[i] = (char)('a' + (i % 23));
      all.push_back(s);
    }
    for (const std::string& s : all) {
      ++g_checks;
      mxArray* a = wrap<string>(s);
      bool nul = s.find('\0') != std::string::npos;
      std::string back;
      try { back = unwrap<string>(a); }
      catch (const std::exception& e) { fail(std::string("roundtrip-raises|string|") + (s.size() > 200 ? "long" : "short"), "length " + show(s.size()) + ": " + e.what()); mxDestroyArray(a); continue; }
      if (back != s) fail(std::string("roundtrip-value|string|") + (nul ? "embedded-NUL" : (s.size() > 200 ? "long" : "no-NUL")), "in " + (s.size() > 200 ? "len" + show(s.size()) : showstr(s)) + " out " + (s.size() > 200 ? "len" + show(back.size()) : showstr(back)));
      mxDestroyArray(a);
    }
  }
  // ---------------- Vector / Matrix / Points: values, shape and element positions
  for (int m = 0; m <= 4; ++m) {
    ++g_checks;
    gtsam::Vector v(m); for (int i = 0; i < m; ++i) v(i) = 10.25 + i;
    mxArray* a = wrap<gtsam::Vector>(v);
    if ((int)mxGetM(a) != m || mxGetN(a) != 1 || !mxIsDouble(a)) fail("roundtrip-shape|Vector", "length " + show(m) + " gives " + show(mxGetM(a)) + "x" + show(mxGetN(a)));
    for (int i = 0; i < m && i < (int)mxGetM(a); ++i) if (mxGetPr(a)[i] != v(i)) fail("roundtrip-position|Vector", "element " + show(i));
    try { gtsam::Vector b = unwrap<gtsam::Vector>(a); if (!(b == v)) fail("roundtrip-value|Vector", "length " + show(m)); }
    catch (const std::exception& e) { fail("roundtrip-raises|Vector", "length " + show(m) + ": " + e.what()); }
    mxDestroyArray(a);
  }
  for (int m = 0; m <= 3; ++m) for (int n = 0; n <= 3; ++n) {
    ++g_checks;
    gtsam::Matrix A(m, n); for (int i = 0; i < m; ++i) for (int j = 0; j < n; ++j) A(i, j) = 100 * (i + 1) + j + 0.5;
    mxArray* a = wrap<gtsam::Matrix>(A);
    std::string shp = show(m) + "x" + show(n);
    if ((int)mxGetM(a) != m || (int)mxGetN(a) != n || !mxIsDouble(a)) fail("roundtrip-shape|Matrix", shp + " gives " + show(mxGetM(a)) + "x" + show(mxGetN(a)));
    else for (int i = 0; i < m; ++i) for (int j = 0; j < n; ++j) if (mxGetPr(a)[(size_t)j * m + i] != A(i, j)) fail("roundtrip-position|Matrix", shp + " element (" + show(i) + "," + show(j) + ") is not at column-major position");
    try { gtsam::Matrix B = unwrap<gtsam::Matrix>(a); if (!(B == A)) fail("roundtrip-value|Matrix", shp); }
    catch (const std::exception& e) { fail("roundtrip-raises|Matrix", shp + ": " + e.what()); }
    mxDestroyArray(a);
  }
  {
    ++g_checks; gtsam::Point2 p(1.5, -2.5); mxArray* a = wrap<gtsam::Point2>(p); gtsam::Point2 b = unwrap<gtsam::Point2>(a);
    if (!(b == p) || mxGetM(a) != 2 || mxGetN(a) != 1) fail("roundtrip-value|Point2", ""); mxDestroyArray(a);
    ++g_checks; gtsam::Point3 q(1.5, -2.5, 3.25); a = wrap<gtsam::Point3>(q); gtsam::Point3 c = unwrap<gtsam::Point3>(a);
    if (!(c == q) || mxGetM(a) != 3 || mxGetN(a) != 1) fail("roundtrip-value|Point3", ""); mxDestroyArray(a);
  }
  // ---------------- enums
  for (Color c : {Red, Green, Blue}) {
    ++g_checks;
    try {
      mxArray* a = wrap_enum<Color>(c, "enum.Color");
      if (a->class_name != "enum.Color") fail("enum|class", a->class_name);
      mxArray* val = mxGetProperty(a, 0, "value");
      Color back = unwrap_enum<Color>(val);
      if (back != c) fail("enum|roundtrip", show((int)c) + " -> " + show((int)back));
      mxDestroyArray(val); mxDestroyArray(a);
    } catch (const std::exception& e) { fail("enum|raises", e.what()); }
  }
  // an enumeration member returned twice (MATLAB frees what a gateway returned in between)
  for (int round = 0; round < 3; ++round)
    for (Color c : {Blue, Red, Blue}) {
      ++g_checks;
      try {
        mxArray* a = wrap_enum<Color>(c, "enum.Color");
        mxArray* val = mxGetProperty(a, 0, "value");
        if (unwrap_enum<Color>(val) != c) fail("enum|roundtrip-second-time", show((int)c));
        mxDestroyArray(val); mxDestroyArray(a);
      } catch (const std::exception& e) { fail("enum|raises-second-time", e.what()); }
    }
  // ---------------- argument count check used by every generated routine
  for (int expected = 0; expected <= 3; ++expected)
    for (int nargin = 0; nargin <= 5; ++nargin) {
      ++g_checks;
      bool raised = false;
      try { checkArguments("f", 1, nargin, expected); } catch (const std::exception&) { raised = true; }
      if (raised != (nargin != expected))
        fail(std::string("checkArguments|") + (nargin > expected ? "too-many-accepted" : nargin < expected ? "too-few-accepted" : "exact-count-rejected"),
             "expected " + show(expected) + ", given " + show(nargin));
    }
  // ---------------- errors: non-scalars where a scalar is required
  const size_t shapes[4][2] = {{0, 0}, {1, 2}, {2, 1}, {2, 2}};
  for (auto& s : shapes) {
    std::string sh = show(s[0]) + "x" + show(s[1]) + " double";
    must_raise<bool>("scalar|bool", sh.c_str(), dbl(s[0], s[1]));
    must_raise<char>("scalar|char", sh.c_str(), dbl(s[0], s[1]));
    must_raise<unsigned char>("scalar|unsigned char", sh.c_str(), dbl(s[0], s[1]));
    must_raise<int>("scalar|int", sh.c_str(), dbl(s[0], s[1]));
    must_raise<size_t>("scalar|size_t", sh.c_str(), dbl(s[0], s[1]));
    must_raise<double>("scalar|double", sh.c_str(), dbl(s[0], s[1]));
    must_raise<int>("scalar|int", (show(s[0]) + "x" + show(s[1]) + " uint64").c_str(), arr(mxUINT64_CLASS, s[0], s[1]));
  }
  // non-numeric / non-double arrays where a vector or matrix is required, and wrong column counts for vectors
  for (mxClassID c : {mxCHAR_CLASS, mxLOGICAL_CLASS, mxUINT64_CLASS, mxINT32_CLASS, mxSINGLE_CLASS, mxSTRUCT_CLASS, mxUINT8_CLASS}) {
    std::string cn = "class" + show((int)c);
    must_raise<gtsam::Vector>("array|Vector", (cn + " 3x1").c_str(), arr(c, 3, 1));
    must_raise<gtsam::Matrix>("array|Matrix", (cn + " 2x2").c_str(), arr(c, 2, 2));
    must_raise<gtsam::Point2>("array|Point2", (cn + " 2x1").c_str(), arr(c, 2, 1));
    must_raise<gtsam::Point3>("array|Point3", (cn + " 3x1").c_str(), arr(c, 3, 1));
  }
  // ... also when such an array has no elements ('' , cell(0,3), ...)
  for (mxClassID c : {mxCHAR_CLASS, mxLOGICAL_CLASS, mxUINT64_CLASS, mxSTRUCT_CLASS, mxCELL_CLASS}) {
    std::string cn = "class" + show((int)c);
    must_raise<gtsam::Matrix>("array|Matrix-empty-non-double", (cn + " 0x0").c_str(), arr(c, 0, 0));
    must_raise<gtsam::Matrix>("array|Matrix-empty-non-double", (cn + " 0x3").c_str(), arr(c, 0, 3));
    must_raise<gtsam::Matrix>("array|Matrix-empty-non-double", (cn + " 1x0").c_str(), arr(c, 1, 0));
    must_raise<gtsam::Vector>("array|Vector-empty-non-double", (cn + " 0x1").c_str(), arr(c, 0, 1));
  }
  for (size_t n : {(size_t)0, (size_t)2, (size_t)3}) {
    must_raise<gtsam::Vector>("array|Vector-columns", ("3x" + show(n) + " double").c_str(), dbl(3, n));
    must_raise<gtsam::Point2>("array|Point2-columns", ("2x" + show(n) + " double").c_str(), dbl(2, n));
    must_raise<gtsam::Point3>("array|Point3-columns", ("3x" + show(n) + " double").c_str(), dbl(3, n));
  }
  must_raise<string>("array|string", "1x1 double", dbl(1, 1));
  must_raise<string>("array|string", "1x1 uint64", arr(mxUINT64_CLASS, 1, 1));
  // ---------------- handle protocol: all operation sequences up to hdepth
  {
    std::vector<int> ops;
    explore(ops, 0, hdepth);
  }
  std::cout << "SUMMARY checks=" << g_checks << " failures=" << g_fail << " handle_sequences=" << g_seq
            << " handle_states=" << g_state_set.size() << " live_mxarrays=" << mockmex::live_arrays() << "\n";
  return 0;
}
