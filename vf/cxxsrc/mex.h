/* Mock of the MATLAB MEX C API: only what matlab.h and generated gateways use.  Arrays are zero-initialised like
   MATLAB's; errors are C++ exceptions; MATLAB objects are opaque arrays carrying a class name and properties. */
#ifndef VF_MOCK_MEX_H
#define VF_MOCK_MEX_H
#include <stddef.h>
#include <stdint.h>
#ifdef __cplusplus
extern "C++" {   /* matlab.h includes this header inside extern "C" { } */
#include <cstdint>
#include <map>
#include <string>
#include <vector>
#include <stdexcept>
}
#endif

typedef size_t mwSize;
typedef size_t mwIndex;
typedef int32_t int32_T;
typedef uint16_t mxChar_;   /* not used: matlab.h relies on mxArrayToString */
typedef bool mxLogical;

typedef enum {
  mxUNKNOWN_CLASS = 0, mxCELL_CLASS, mxSTRUCT_CLASS, mxLOGICAL_CLASS, mxCHAR_CLASS, mxVOID_CLASS, mxDOUBLE_CLASS,
  mxSINGLE_CLASS, mxINT8_CLASS, mxUINT8_CLASS, mxINT16_CLASS, mxUINT16_CLASS, mxINT32_CLASS, mxUINT32_CLASS,
  mxINT64_CLASS, mxUINT64_CLASS, mxFUNCTION_CLASS, mxOPAQUE_CLASS, mxOBJECT_CLASS
} mxClassID;
typedef enum { mxREAL = 0, mxCOMPLEX } mxComplexity;

#ifdef __cplusplus
extern "C++" {
struct mxArray_tag {
  mxClassID cls = mxDOUBLE_CLASS;
  size_t m = 0, n = 0;
  std::vector<unsigned char> data;          // numeric / logical / char (1 byte per char) payload, column major
  bool complex_ = false;
  // struct arrays (1x1 only)
  std::vector<std::string> field_names;
  std::vector<mxArray_tag*> field_values;
  // MATLAB objects (classdef instances and enumeration members)
  std::string class_name;
  long object_id = 0;                        // identity of the MATLAB-side object
  std::map<std::string, mxArray_tag*> props;
  bool is_temp_property_copy = false;
};
struct MexError : public std::runtime_error {
  std::string id;
  MexError(const std::string& i, const std::string& m) : std::runtime_error(m), id(i) {}
};
}
extern "C" {
#else
struct mxArray_tag;
#endif
typedef struct mxArray_tag mxArray;

void mexErrMsgIdAndTxt(const char* id, const char* msg, ...);
void mexErrMsgTxt(const char* msg);
int mexPrintf(const char* fmt, ...);
mxArray* mxCreateNumericArray(mwSize ndim, const mwSize* dims, mxClassID classid, mxComplexity flag);
mxArray* mxCreateNumericMatrix(mwSize m, mwSize n, mxClassID classid, mxComplexity flag);
mxArray* mxCreateDoubleMatrix(mwSize m, mwSize n, mxComplexity flag);
mxArray* mxCreateDoubleScalar(double v);
mxArray* mxCreateString(const char* s);
mxArray* mxCreateStructMatrix(mwSize m, mwSize n, int nfields, const char** names);
mxArray* mxDuplicateArray(const mxArray* a);
void mxDestroyArray(mxArray* a);
size_t mxGetM(const mxArray* a);
size_t mxGetN(const mxArray* a);
void* mxGetData(const mxArray* a);
double* mxGetPr(const mxArray* a);
double mxGetScalar(const mxArray* a);
mxClassID mxGetClassID(const mxArray* a);
bool mxIsDouble(const mxArray* a);
bool mxIsComplex(const mxArray* a);
char* mxArrayToString(const mxArray* a);
int mxGetString(const mxArray* a, char* buf, mwSize buflen);
void mxFree(void* p);
mxArray* mxGetProperty(const mxArray* a, mwIndex i, const char* name);
int mxAddField(mxArray* a, const char* name);
void mxSetFieldByNumber(mxArray* a, mwIndex i, int field, mxArray* v);
mxArray* mxGetField(const mxArray* a, mwIndex i, const char* name);
const mxArray* mexGetVariablePtr(const char* workspace, const char* name);
mxArray* mexGetVariable(const char* workspace, const char* name);
int mexPutVariable(const char* workspace, const char* name, const mxArray* v);
int mexCallMATLAB(int nlhs, mxArray* plhs[], int nrhs, mxArray* prhs[], const char* name);
int mexAtExit(void (*fn)(void));
/* persistence requests are accepted and change nothing here: an array handed back through plhs belongs to the caller either way */
void mexMakeArrayPersistent(mxArray* a);
void mexMakeMemoryPersistent(void* p);
void mexLock(void);
void mexUnlock(void);
#ifdef __cplusplus
}
// harness-side helpers (not part of the MEX API)
extern "C++" {
namespace mockmex {
typedef int (*CallMatlabHook)(int nlhs, mxArray* plhs[], int nrhs, mxArray* prhs[], const char* name);
void set_call_matlab_hook(CallMatlabHook h);
void run_at_exit();                 // "clear mex": run the registered mexAtExit callbacks (once each), then forget them
void clear_workspace();
long live_arrays();
std::string printed();              // everything mexPrintf'ed so far (and clears it)
mxArray* make_object(const std::string& cls, long id);
}
}
#endif
#endif
