#pragma once
#include <gtsam/base/Vector.h>
namespace gtsam {
struct Point3 : public Vector { Point3() : Vector(3) {} Point3(const Vector& v) : Vector(v) {} Point3(double x, double y, double z) : Vector({x, y, z}) {} };
}
