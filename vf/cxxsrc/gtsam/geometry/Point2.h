#pragma once
#include <gtsam/base/Vector.h>
namespace gtsam {
struct Point2 : public Vector { Point2() : Vector(2) {} Point2(const Vector& v) : Vector(v) {} Point2(double x, double y) : Vector({x, y}) {} };
}
