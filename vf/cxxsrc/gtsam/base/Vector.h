#pragma once
// minimal stand-in for gtsam::Vector (Eigen::VectorXd): what matlab.h needs
#include <vector>
#include <cstddef>
namespace gtsam {
class Vector {
 public:
  Vector() {}
  explicit Vector(int m) : d_(m, 0.0) {}
  Vector(std::initializer_list<double> l) : d_(l) {}
  int size() const { return (int)d_.size(); }
  double& operator()(int i) { return d_.at(i); }
  double operator()(int i) const { return d_.at(i); }
  bool operator==(const Vector& o) const { return d_ == o.d_; }
  const std::vector<double>& raw() const { return d_; }
 private:
  std::vector<double> d_;
};
}
