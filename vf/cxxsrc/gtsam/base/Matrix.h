#pragma once
#include <vector>
namespace gtsam {
class Matrix {
 public:
  Matrix() : m_(0), n_(0) {}
  Matrix(int m, int n) : m_(m), n_(n), d_((size_t)m * n, 0.0) {}
  int rows() const { return m_; }
  int cols() const { return n_; }
  double& operator()(int i, int j) { return d_.at((size_t)i * n_ + j); }        // stored row-major on purpose
  double operator()(int i, int j) const { return d_.at((size_t)i * n_ + j); }
  bool operator==(const Matrix& o) const { return m_ == o.m_ && n_ == o.n_ && d_ == o.d_; }
  static Matrix Identity(int m, int n) { Matrix r(m, n); for (int i = 0; i < m && i < n; ++i) r(i, i) = 1; return r; }
 private:
  int m_, n_;
  std::vector<double> d_;
};
}
