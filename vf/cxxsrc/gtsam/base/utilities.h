#pragma once
#include <cstdint>
#include <iostream>
#include <memory>   // the real GTSAM headers pull this in; matlab.h uses std::shared_ptr without including it
