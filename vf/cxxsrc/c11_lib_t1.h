// Instrumented library for C11 toolbox T1 (hand-written: its semantics are the reference model's).
#pragma once
#include <map>
#include <memory>
#include <sstream>
#include <string>
#include <utility>
#include <vector>
using std::string;
namespace vf {
inline std::vector<std::string>& trace() { static std::vector<std::string> t; return t; }
inline std::map<int, std::string>& live() { static std::map<int, std::string> l; return l; }
inline int& next_oid() { static int n = 100; return n; }
struct Tracked {
  int oid_; const char* cls_;
  explicit Tracked(const char* c) : oid_(++next_oid()), cls_(c) { live()[oid_] = c; }
  Tracked(const Tracked& o) : oid_(++next_oid()), cls_(o.cls_) { live()[oid_] = cls_; trace().push_back(std::string("copy ") + cls_ + " #" + std::to_string(o.oid_) + "=>#" + std::to_string(oid_)); }
  Tracked& operator=(const Tracked&) { return *this; }
  virtual ~Tracked() { live().erase(oid_); }
};
inline std::string R(const Tracked& t) { return "#" + std::to_string(t.oid_); }
inline std::string R(const Tracked* t) { return t ? "#" + std::to_string(t->oid_) : std::string("null"); }
inline std::string R(int v) { return std::to_string(v); }
inline std::string R(bool v) { return v ? "true" : "false"; }
inline void rec(const std::string& s) { trace().push_back(s); }
}
namespace gt {
enum Kind { Dog = 0, Cat = 1, Emu = 2 };
class Arg : public vf::Tracked {
 public:
  int v;
  Arg() : Tracked("gt::Arg"), v(0) { vf::rec("call gt::Arg::Arg()=>" + vf::R(*this)); }
  explicit Arg(int v_) : Tracked("gt::Arg"), v(v_) { vf::rec("call gt::Arg::Arg(" + vf::R(v_) + ")=>" + vf::R(*this)); }
  int get() const { vf::rec("call gt::Arg::get@" + vf::R(*this) + "()=>" + vf::R(v)); return v; }
  void set(int x) { vf::rec("call gt::Arg::set@" + vf::R(*this) + "(" + vf::R(x) + ")=>void"); v = x; }
};
class Base : public vf::Tracked {
 public:
  int b;
  Base() : Tracked("gt::Base"), b(7) { vf::rec("call gt::Base::Base()=>" + vf::R(*this)); }
  explicit Base(const char* dyn) : Tracked(dyn), b(7) {}
  virtual ~Base() {}
  int baseValue(int x) const { vf::rec("call gt::Base::baseValue@" + vf::R(*this) + "(" + vf::R(x) + ")=>" + vf::R(b + x)); return b + x; }
};
class Derived : public Base {
 public:
  int v, w;
  Derived() : Base("gt::Derived"), v(1), w(5) { vf::rec("call gt::Derived::Derived()=>" + vf::R(*this)); }
  Derived(int v_, int w_) : Base("gt::Derived"), v(v_), w(w_) { vf::rec("call gt::Derived::Derived(" + vf::R(v_) + "," + vf::R(w_) + ")=>" + vf::R(*this)); }
  int value() const { vf::rec("call gt::Derived::value@" + vf::R(*this) + "()=>" + vf::R(v * 10 + w)); return v * 10 + w; }
};
class Keeper : public vf::Tracked {
 public:
  std::shared_ptr<Arg> kept_;
  int count;
  Keeper() : Tracked("gt::Keeper"), count(3) { vf::rec("call gt::Keeper::Keeper()=>" + vf::R(*this)); }
  void keep(std::shared_ptr<Arg> a) { vf::rec("call gt::Keeper::keep@" + vf::R(*this) + "(" + vf::R(a.get()) + ")=>void"); kept_ = a; }
  std::shared_ptr<Arg> kept() const { vf::rec("call gt::Keeper::kept@" + vf::R(*this) + "()=>" + vf::R(kept_.get())); return kept_; }
  const Arg& keptRef() const { vf::rec("call gt::Keeper::keptRef@" + vf::R(*this) + "()=>" + vf::R(kept_.get())); return *kept_; }
  Arg copyOf(const Arg& a) const { vf::rec("call gt::Keeper::copyOf@" + vf::R(*this) + "(" + vf::R(a) + ")=>copy"); return Arg(a); }
  std::pair<Arg, std::shared_ptr<Arg>> both() const {
    vf::rec("call gt::Keeper::both@" + vf::R(*this) + "()=>(copy," + vf::R(kept_.get()) + ")");
    return std::pair<Arg, std::shared_ptr<Arg>>(Arg(*kept_), kept_);
  }
  int use(const Arg& a, Arg b, Arg* c) const {
    int r = a.v * 100 + b.v * 10 + (c ? c->v : 9);
    vf::rec("call gt::Keeper::use@" + vf::R(*this) + "(" + vf::R(a) + ",byvalue:" + vf::R(b.v) + "," + vf::R(c) + ")=>" + vf::R(r)); return r;
  }
  static Keeper Make(int n) { vf::rec("call gt::Keeper::Make(" + vf::R(n) + ")=>copy"); Keeper k; k.count = n; return k; }
  std::shared_ptr<Base> makeBase(bool derived) const {
    std::shared_ptr<Base> r = derived ? std::shared_ptr<Base>(new Derived(4, 2)) : std::shared_ptr<Base>(new Base());
    vf::rec("call gt::Keeper::makeBase@" + vf::R(*this) + "(" + vf::R(derived) + ")=>" + vf::R(r.get())); return r;
  }
  int baseArg(std::shared_ptr<Base> p) const { vf::rec("call gt::Keeper::baseArg@" + vf::R(*this) + "(" + vf::R(p.get()) + ")=>" + vf::R(p->b)); return p->b; }
  Kind flip(Kind k) const { vf::rec("call gt::Keeper::flip@" + vf::R(*this) + "(" + vf::R((int)k) + ")=>" + vf::R((int)(k == Dog ? Cat : Dog))); return k == Dog ? Cat : Dog; }
};
// a class with a by-value member of a wrapped class type (read from MATLAB as a property)
class Holder : public vf::Tracked {
 public:
  Arg item;
  Holder() : Tracked("gt::Holder"), item(5) { vf::rec("call gt::Holder::Holder()=>" + vf::R(*this)); }
};
inline std::shared_ptr<Arg> freeMake(int v) { auto r = std::make_shared<Arg>(v); vf::rec("call gt::freeMake(" + vf::R(v) + ")=>" + vf::R(r.get())); return r; }
inline int freeUse(const Arg& a) { vf::rec("call gt::freeUse(" + vf::R(a) + ")=>" + vf::R(a.v + 1)); return a.v + 1; }
}
