#!/bin/sh
# Offline setup: nothing to fetch.  Verifies the interpreter and the repo import, builds nothing persistent
# (C++ harnesses are compiled per run under .work/ from /repo's current tree).
set -e
cd "$(dirname "$0")"
mkdir -p .work evidence replays
/venv/bin/python -c "import sys; sys.path.insert(0,'/repo'); import gtwrap.interface_parser, pyparsing; print('gtwrap import ok, pyparsing', pyparsing.__version__)"
g++ --version | head -1
