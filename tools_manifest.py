#!/usr/bin/env python3
"""Regenerates MANIFEST.json from the table below (keeps it valid at all times)."""
import json, os
HERE = os.path.dirname(os.path.abspath(__file__))
props = [json.loads(l) for l in open(os.path.join(HERE, 'properties.jsonl'))]

CHECKS = {
 'C01': dict(cat='exploration', technique='bounded-exhaustive input enumeration (type universe x positions, declaration feature products, item/member sequences) against an independent reference projection of the dialect',
             text='Every module of three completely enumerated families (type expressions to template depth 2 (3 thorough) in every type position; every flag/arity/default-mask combination per declaration kind; every item sequence <=2 (3) at 7 namespace nestings and member sequence <=2 (3)) is parsed by the real parser and its tree compared field by field with a reference projection written from DOCS.md.',
             note='Reference dialect model (vf/dialect.py) is trusted; bounded identifier pool; depth bounds as stated in evidence.', ref='2/C01'),

 'C02': dict(cat='exploration', technique='bounded-exhaustive enumeration of (occurrence shape x parameter spelling x concrete argument) in every substitution context, against a reference capture-free substitution',
             text='Full product of ~35 occurrence shapes (exact with every qualifier, nested to depth 3, scoped T::X, This, look-alikes), 5 parameter spellings and 5 concrete argument kinds, each placed in 19 contexts (class-, method-, function-level parameters; ctor/method/static/property/operator/base/pair); every instantiated type spelling is compared with an independent reference substitution. Thorough adds all ordered shape pairs.',
             note='Reference substitution semantics (vf/refinst.py) trusted; known findings listed in known_findings.json are reported, not failed.', ref='2/C02'),
 'C08': dict(cat='exploration', technique='bounded-exhaustive enumeration of template headers, member-level templates and typedef placements against a reference instantiation (product order, names, C++ spelling)',
             text='All template headers with up to 2 (3) parameters and list lengths 0..3 (0..5) on classes and functions at namespace depth 0..2, all member-level headers combined with class-level lists, all typedef placements (class/function/foreign, before/after, local/global, with/without list), same-named templates in three namespaces, namespaces opened twice with the template in either block, typedefs of the three kinds in all six orders; instantiated tree compared with the reference Cartesian product in order, names and C++ spelling; surrounding non-template declarations must pass through unchanged and in order.',
             note='Where typedef instantiations are placed inside their scope is not compared; their order relative to each other is.', ref='2/C08'),
 'C13': dict(cat='exploration', technique='exhaustive differential exploration: every ordered selection of the instantiation list, every parameter renaming, every short history of earlier modules; blocks compared with the single-instantiation run',
             text='For 5 templated declaration variants: every subset+permutation of a 3 (4) element instantiation list, 9 parameter renamings (incl. swapping T/U and single-letter names), 3 repetitions and every history of <=1 (2) earlier modules; the pybind registration, MATLAB classdef/function file and id-normalised MEX routines of each instantiation must equal those of the single-instantiation run.',
             note='Differential oracle: no expected values; MATLAB ids normalised through the dispatch table.', ref='2/C13'),

 'C03': dict(cat='exploration', technique='bounded-exhaustive enumeration of (module, top namespace, ignore list, serialization) with a scanner of the emitted registrations compared as a multiset against a reference API model',
             text='13 entity kinds in each of 9 namespace scopes (incl. a re-opened namespace and same-named inner namespaces), alone under 10 top-namespace settings x all applicable ignore lists x serialization flag, and in all ordered pairs under 2 (10) top settings; the registrations scanned from the real generator output (classes, ctors, methods, statics, properties, operators, dunders, enums, enumerators, functions, variables, submodules) must equal the reference API exactly, with every submodule created once, after its parent and before use, and all Python keywords (keyword.kwlist) escaped.',
             note='Reference API model (vf/refpy.py) and the C++ scanner (vf/gen.py) are trusted; compiled introspection is C04.', ref='2/C03'),
 'C09': dict(cat='exploration', technique='bounded-exhaustive enumeration of interface constructs (alone, pairs, option sets); every generated translation unit compiled (g++ -fsyntax-only, templates instantiated) against a generated mock library',
             text='28 interface constructs (same-leaf namespaces, several This:: in one template argument list, header paths that contain each other, operators, defaults with quotes/brackets, nested template arguments, templates, typedefs, enums at every scope, inheritance, variables, serialization/print, keyword names, name-collision shapes) alone under 5 option sets and in every unordered (ordered) pair; each emitted TU must compile against a mock library that declares the entities as written; lexical checks (lambda parameters vs py::arg list, balanced brackets) on every output.',
             note='Mock library generator trusted (it is compiled on its own first; a mock that does not compile is a harness error, not a verdict). No Eigen/Boost in the image.', ref='2/C09'),

 'C04': dict(cat='exploration', technique='bounded-exhaustive enumeration of callables (kind x argument pattern x default mask x return shape x scope); generated modules are compiled, imported and every binding executed against an instrumented mock library that records entity, this, argument values and result',
             text='Every callable of the family (12 argument patterns x every trailing default mask + 13 return shapes, as method / const method / static / function / constructor, in up to 3 scopes) plus overload sets, class/method/function templates with explicit arguments, 30 operators, properties, enumerators, inheritance and variables is compiled from the real generator output and called positionally, with reversed keywords, mixed, with each defaulted suffix omitted, with an extra argument and without instance; the recorded C++ call must be the declared entity with the supplied values in declared order, defaults filled by the declared literals, and the result returned (None for void).',
             note='Mock library generator and driver trusted; types limited to what can be implemented without Eigen/Boost.', ref='2/C04'),

 'C05': dict(cat='model_checking', technique='explicit-state exploration of the id allocator: every declaration sequence up to a depth bound is run through the real MatlabWrapper; invariant (ids = cases = 0..n-1, one routine per case, call-site role = routine role) checked in every state',
             text='Breadth-first exploration of all declaration sequences of length <=3 (4) over a 21-letter alphabet (plain/virtual/derived/templated/serializable/ignored classes, overloads with defaults, statics, properties, functions, templated functions, enums, namespaces) plus length 4 (5..6) over a 6-letter core; each transition runs the real generator on the extended interface; in every reached state the ids at all .m call sites, the switch cases and the routine definitions must be in bijection and the role of each call site (read from the .m AST: class, constructor/collector/up-cast/destructor/method/static/getter/setter/function/serialization, member, arity) must equal the role of the routine its case runs (read from the C++ body).',
             note='mini-MATLAB parser and routine-body recognisers trusted; states canonicalised as (next id, role multiset).', ref='2/C05'),
 'C12': dict(cat='exploration', technique='bounded-exhaustive re-layout: every token gap of a seed corpus x a filler alphabet of whitespace and comments; parse tree projection and generator outputs compared with the canonical layout',
             text='6 seed modules covering every grammar production x every gap between adjacent dialect tokens x 9 (16) fillers (whitespace kinds, C/C++ comments containing braces, semicolons, quotes, keywords, star runs, several comments in a row), all-gaps and alternating variants, (thorough) all gap pairs on small seeds; the parse-tree projection must be identical and the pybind output and MATLAB tree byte-identical to the canonical layout.',
             note='Dialect terminals atomic (defaults, include header, multi-word keywords); differential oracle.', ref='2/C12'),

 'C07': dict(cat='fault_enumeration', technique='exhaustive single-fault enumeration on the token sequence of a seed corpus (delete, duplicate, swap, truncate, insert stray token at every position), token accounting on accepted inputs, output-directory diff and horizon on rejected ones, for the parser, both generators and both scripts',
             text='Every single-token corruption of 7 seed modules (one of them with its default / initialiser expressions split into tokens; every deletion, duplication, adjacent swap, truncation at token boundaries and inside tokens, insertion of 12 (18) stray tokens at every gap; thorough: two-fault combinations) plus 59 validation-error inputs (which the parser or the MATLAB generator must reject); an accepted default expression must have balanced brackets; an accepted input must have every token accounted for in the parse tree; a rejected one must raise within 60 s, and PybindWrapper.wrap / wrap_submodule, MatlabWrapper.wrap and both scripts (in-process and as subprocesses) must leave a pre-populated output area byte-for-byte unchanged and create nothing.',
             note='Token accounting is by multiset (class members are stored per kind); file-writing drivers are run on every 12th (4th) fault.', ref='2/C07'),

 'C10': dict(cat='exploration', technique='bounded-exhaustive enumeration of (module, ignore list, serialization); generated file tree, parsed classdef structure and MEX preamble compared with a reference toolbox model',
             text='13 entity kinds in 4 namespace scopes (depth 0..3), alone x ignore lists x serialization, in all ordered pairs (also x ignore lists) and (thorough) all triples; the generated tree must be exactly the reference toolbox: one classdef per non-ignored instantiation in its +package path, one file per function name, one enumeration classdef per enum (class-scoped under +Class), one MEX source; each classdef parsed (base/handle, pointer property, one constructor with the expected arities, delete, one method per distinct name, one static per distinct name, get/set per property), enumerators 0..n-1 in order; one collector and one clean-up block per class, one RTTI entry per virtual class.',
             note='Reference toolbox model (vf/refml.py) and mini-MATLAB parser trusted.', ref='2/C10'),
 'C15': dict(cat='exploration', technique='exhaustive differential exploration over (module, target class): ignore vs delete vs unchanged, for both generators, block-wise comparison with id normalisation',
             text='For every module of 1..2 (3) entity kinds in 4 namespace scopes and every class of 6 target kinds at every scope (global, depth 1..3; one instantiation for templated classes): the output with the class ignored must equal byte for byte the output with its declaration deleted, and every other entity block (pybind registration; MATLAB file, id-normalised MEX routines, collector, clean-up, RTTI entry) must equal its block in the unchanged output.',
             note='Differential oracle, no expected values; ignore entries spelled as each generator documents.', ref='2/C15'),

 'C06': dict(cat='exploration', technique='bounded-exhaustive enumeration of callables (kind x arity x trailing-default count x passing mode x return shape x scope); .m guards and call sites (mini-MATLAB AST) and C++ routine bodies compared with a reference marshalling model',
             text='Every signature with arity 0..3 (4), every trailing default count, one (two) deviating parameter(s) over 16 passing modes, 13 return shapes, as method / static / function / constructor, in namespace gt and (subset/all) at global scope and two namespaces deep: arities offered must be exactly n..n-k; per arity the .m guard must test the count and the MATLAB class of each argument and pass the arguments/outputs as the return shape requires; the C++ routine must check the same count, unwrap parameter i from in[i(+1)] with the declared passing mode, call the declared entity with the arguments in order followed by the omitted defaults verbatim, and wrap the result for the declared return type.',
             note='Text-level check of both sides; executing a gateway is C11. Conventions of matlab.h as listed in the evidence assumptions.', ref='2/C06'),

 'C16': dict(cat='exploration', technique='bounded-exhaustive enumeration of file splits x file endings x stems/extensions and of script option combinations; library outputs compared with each other, scripts run as subprocesses and compared byte for byte with the API, compositions compiled, linked and imported',
             text='All splits of a 4-item declaration sequence into 1..3 files x 8 file endings (no newline, line/block comment, CRLF, ...) x extensions x plain/underscore/dotted stems: the pybind main output must declare and call one initialiser per extra file in order and otherwise equal wrapping the main text; wrap_submodule must write exactly <stem>.cpp containing the initialiser definition around what wrapping the text alone yields, touching nothing else; MATLAB wrap(list) must equal wrap(single concatenated file); 108 script option combinations as real subprocesses must equal the library API byte for byte; 18 (48) main+parts compositions are compiled, linked and imported.',
             note='Mock library of C04 for the linked compositions; declarations of different files are independent.', ref='2/C16'),

 'C17': dict(cat='exploration', technique='bounded-exhaustive enumeration of documentation texts over escaping classes and of overload/XML-tree shapes; literals decoded by an independent C++ literal decoder and by g++ and compared with the extracted text',
             text='Every documentation text of length <=2 (3) over 20 escaping-class representatives (quotes, backslash, newline, tab, %, braces, ?, DEL, U+0085, U+00AD, Latin-1, CJK, U+2028, emoji, hex-digit letters) as the docstring of its own method: the literal after the .def must be well-formed C++ and decode (own decoder and g++) to exactly the extracted text; 12 member shapes (overloads told apart by names or by order, optional parameters, brief only, undocumented, absent) x complete / index-less / missing XML trees, unindexed class, missing and ill-formed class file: each binding carries the marker of its own member and no other, missing pieces give an empty docstring and never an error; output minus literals equals output without XML; one wrapper used twice gives the same result.',
             note='Own Doxygen XML emitter; characters XML 1.0 cannot carry are outside the alphabet.', ref='2/C17'),

 'C19': dict(cat='exploration', technique='exhaustive enumeration of nesting chains (namespace depth x template depth x type position) and file sizes, with a deterministic cost oracle (pyparsing function activations via sys.monitoring) and consecutive-depth ratio bounds',
             text='All (namespace depth a, template-argument depth b) with a+b <= 10 (16) for a templated type in each of 6 positions, and files of 25..200 (400) declarations of 8 kinds: the number of pyparsing function activations during Module.parseString (deterministic, no wall clock) may grow by at most a factor 1.7 per extra nesting level from depth 6 on (degree-3 polynomial: <= 1.59; exponential re-parsing: >= 2) and per-declaration cost must stay within 2x of its value at 25 declarations.',
             note='Cost model = interpreter-level activations inside pyparsing; CPU seconds recorded as evidence only.', ref='2/C19'),

 'C14': dict(cat='model_checking', technique='explicit-state exploration of wrapper-call histories on the real objects, exhaustive enumeration of file-system interleavings of concurrent wrapper runs under an own baton-passing scheduler (iterative preemption bounding), and an exhaustive grid of process configurations (hash seed x cwd x locale) with an open() audit',
             text='(1) one subprocess per (PYTHONHASHSEED 0..7 (0..63+random) x 3 working directories x 6 locale/encoding environments) for ASCII and non-ASCII inputs: every output digest of both generators over a 7-module corpus must be identical, and an audit hook shows writes only to requested outputs and reads only of inputs/templates; (2) BFS over all histories of <=2 (3) calls over {reused PybindWrapper, fresh PybindWrapper, fresh MatlabWrapper} x corpus: the last output equals that of a fresh wrapper; (3) 2-3 wrapper runs writing different targets into one directory, executed under our scheduler with scheduling points at every open/write/close/mkdir/makedirs/isdir, all interleavings within a preemption bound (2 / 1 quick, unbounded / 2-3 thorough): no run fails, the directory equals the union of the serial results; failing schedules are replayed to confirm determinism.',
             note='Scheduling points are file-system calls (generation between them is atomic); installed locales only; reuse of one wrapper object exercised for PybindWrapper only.', ref='2/C14'),

 'C18': dict(cat='model_checking', technique='exhaustive value enumeration and explicit-state exploration of all handle operation sequences up to a depth bound, executed against the real matlab.h compiled (ASan/UBSan) on a mock MEX API',
             text='The real matlab.h is compiled against a mock MEX API: every bool, every char and unsigned char, every int in [-65536,65536] plus boundaries, boundary sets of size_t and double (bitwise), every string of length <=3 (4) over {a, space, newline, quote, 0xFF, NUL}, Vector lengths 0..4 and Matrix shapes 0..3x0..3 (shape and column-major positions), Points and enums must round-trip; every scalar unwrap on non-scalar shapes and every Vector/Matrix/Point/string unwrap on non-double / non-char classes or wrong column counts must raise; all 111110 (1.1M) sequences of <=5 (6) handle operations (wrap virtual/non-virtual, drop owner, delete handle, unwrap_shared_ptr, unwrap_ptr) on 2 objects keep: a handle designates its object, an object lives exactly as long as a handle or owner exists, nothing is alive after tear-down; no sanitizer report.',
             note='Mock MEX API stands for MATLAB; little-endian LP64; the MATLAB-side constructor is hand-written in the driver.', ref='2/C18'),

 'C11': dict(cat='model_checking', technique='explicit-state breadth-first exploration of MATLAB session histories: each history is replayed on a fresh process holding the real generated gateway + real matlab.h (ASan/UBSan) on a mock MEX API, driven only through the generated .m files executed by a mini-MATLAB interpreter; ownership/trace invariants checked in every state against a reference ownership model',
             text='All session histories of length <=5 (6) over: every constructor arity, methods/statics/functions with arguments from the live handles and {1,2}, object returns by value / shared pointer / pair / aliasing an already-wrapped object / Derived behind a Base handle, raw-pointer and enum arguments, property get/set, delete of any handle, unload -- with at most 3 live handles, successors expanded from each new canonical ownership state. After every step: the library call trace shows exactly the declared entity with the supplied values and MATLAB receives its result; every handle designates the object the model says (probed through the gateway); each collector size equals the number of live handles whose class chain contains the class; live library objects equal the objects reachable from live handles, none after unload; no MATLAB-side error, no sanitizer report.',
             note='mini-MATLAB interpreter and mock MEX API stand for MATLAB; one toolbox (inheritance chain, aliasing keeper, enums, statics, free functions, property) with a hand-written instrumented library as reference semantics.', ref='2/C11'),
}
NOT_YET = 'check not built yet in this session (see DESIGN.md for the planned exhaustive exploration)'

def main():
    checks, na = [], []
    for p in props:
        i = p['id']
        if i in CHECKS:
            c = CHECKS[i]
            checks.append({
                'property_id': i,
                'quick_cmd': './check %s --tier quick' % i,
                'thorough_cmd': './check %s --tier thorough' % i,
                'evidence_file': 'evidence/%s.json' % i,
                'replay_cmd_template': './check %s --replay {path}' % i,
                'engine': 'vf-explorer',
                'level_claimed': {'category': c['cat'], 'text': c['text'], 'design_ref': c['ref']},
                'level_note': c['note'],
                'technique': c['technique'],
            })
        else:
            na.append({'property_id': i, 'reason': NOT_YET})
    m = {
        'version': 1,
        'setup_cmd': './setup.sh',
        'hooks': {'guard': 'BORGLAB_WRAP_VERIF', 'enable': 'no source hooks are needed: checks import gtwrap from /repo working tree and observe through public entry points; BORGLAB_WRAP_VERIF=1 is exported by the runner but nothing in /repo reads it',
                  'baseline_off_cmd': 'cd /repo && /venv/bin/python -m pytest -ra -q -p no:cacheprovider --timeout=900 --continue-on-collection-errors',
                  'source_commits': [], 'add_only': True},
        'engines': [{'name': 'vf-explorer', 'path': 'vf/', 'serves_properties': sorted(CHECKS),
                     'kind_free_text': 'hand-written bounded-exhaustive / explicit-state explorer in Python driving the real gtwrap code in 16 worker processes, plus C++ harnesses compiled from generated output'}],
        'checks': checks,
        'not_applicable': na,
        'notes': 'fix: commits in /repo are listed in known_findings.json (status fixed).',
    }
    json.dump(m, open(os.path.join(HERE, 'MANIFEST.json'), 'w'), indent=1)
    print('checks:', [c['property_id'] for c in checks], 'na:', len(na))

if __name__ == '__main__':
    main()
