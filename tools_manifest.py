#!/usr/bin/env python3
"""Regenerates MANIFEST.json from the table below (keeps it valid at all times)."""
import json, os
HERE = os.path.dirname(os.path.abspath(__file__))
props = [json.loads(l) for l in open(os.path.join(HERE, 'properties.jsonl'))]

CHECKS = {
 'C01': dict(cat='exploration', technique='bounded-exhaustive input enumeration (type universe x positions, declaration feature products, item/member sequences) against an independent reference projection of the dialect',
             text='Every module of three completely enumerated families (type expressions to template depth 2 (3 thorough) in every type position; every flag/arity/default-mask combination per declaration kind; every item sequence <=2 (3) at 7 namespace nestings and member sequence <=2 (3)) is parsed by the real parser and its tree compared field by field with a reference projection written from DOCS.md.',
             note='Reference dialect model (vf/dialect.py) is trusted; bounded identifier pool; depth bounds as stated in evidence.', ref='2/C01'),
}
NOT_YET = 'check not built yet in this session (see DESIGN.md for the planned exhaustive exploration)'

def main():
    checks, na = [], []
    for p in props:
        i = p['id']
        if i in CHECKS:
            c = CHECKS[i]
            checks.append({
                'property_id': i,
                'quick_cmd': './check %s --tier quick' % i,
                'thorough_cmd': './check %s --tier thorough' % i,
                'evidence_file': 'evidence/%s.json' % i,
                'replay_cmd_template': './check %s --replay {path}' % i,
                'engine': 'vf-explorer',
                'level_claimed': {'category': c['cat'], 'text': c['text'], 'design_ref': c['ref']},
                'level_note': c['note'],
                'technique': c['technique'],
            })
        else:
            na.append({'property_id': i, 'reason': NOT_YET})
    m = {
        'version': 1,
        'setup_cmd': './setup.sh',
        'hooks': {'guard': 'BORGLAB_WRAP_VERIF', 'enable': 'no source hooks are needed: checks import gtwrap from /repo working tree and observe through public entry points; BORGLAB_WRAP_VERIF=1 is exported by the runner but nothing in /repo reads it',
                  'baseline_off_cmd': 'cd /repo && /venv/bin/python -m pytest -ra -q -p no:cacheprovider --timeout=900 --continue-on-collection-errors',
                  'source_commits': [], 'add_only': True},
        'engines': [{'name': 'vf-explorer', 'path': 'vf/', 'serves_properties': sorted(CHECKS),
                     'kind_free_text': 'hand-written bounded-exhaustive / explicit-state explorer in Python driving the real gtwrap code in 16 worker processes, plus C++ harnesses compiled from generated output'}],
        'checks': checks,
        'not_applicable': na,
        'notes': 'fix: commits in /repo are listed in known_findings.json (status fixed).',
    }
    json.dump(m, open(os.path.join(HERE, 'MANIFEST.json'), 'w'), indent=1)
    print('checks:', [c['property_id'] for c in checks], 'na:', len(na))

if __name__ == '__main__':
    main()
