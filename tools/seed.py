#!/usr/bin/env python3
"""tools/seed.py <PROP> <worktree> <mutdir> <seed-name> [checks...]
Confirm an agent-delivered seeded defect in its scratch worktree (tests still 94 passed, demo PASS->FAIL),
run our checks against it on /repo (apply, run, revert) and store it under /verif/seeded/<seed-name>/."""
import json, os, shutil, subprocess, sys, time

prop, wt, mutdir, name = sys.argv[1:5]
checks = sys.argv[5:] or [prop]
patch = os.path.join(mutdir, 'patch.diff')
demo = os.path.join(mutdir, 'demo.py')
env = dict(os.environ, PYTHONPATH=wt)

def sh(cmd, cwd=None, env=None, timeout=3600):
    r = subprocess.run(cmd, shell=True, cwd=cwd, env=env, capture_output=True, text=True, timeout=timeout)
    return r.returncode, r.stdout + r.stderr

def tests():
    rc, out = sh('/venv/bin/python -m pytest -q -p no:cacheprovider --continue-on-collection-errors tests 2>&1 | tail -1', cwd=wt, env=env)
    return out.strip()

meta = {'property': prop, 'name': name, 'ran': []}
assert sh('git -C %s status --porcelain --untracked-files=no' % wt)[1].strip() == '', 'worktree not clean'
rc0, out0 = sh('/venv/bin/python %s' % demo, cwd=mutdir, env=env)
meta['demo_clean'] = {'exit': rc0, 'tail': out0.strip()[-300:]}
rc, out = sh('git -C %s apply %s' % (wt, patch))
assert rc == 0, 'patch does not apply in worktree: ' + out
try:
    meta['tests_with_patch'] = tests()
    rc1, out1 = sh('/venv/bin/python %s' % demo, cwd=mutdir, env=env)
    meta['demo_patched'] = {'exit': rc1, 'tail': out1.strip()[-500:]}
finally:
    sh('git -C %s checkout -- .' % wt)
ok = rc0 == 0 and rc1 != 0 and '94 passed' in meta['tests_with_patch']
meta['confirmed'] = ok
print('confirmed' if ok else 'NOT CONFIRMED', json.dumps({k: meta[k] for k in ('demo_clean', 'tests_with_patch', 'demo_patched')})[:700])
if not ok:
    sys.exit(1)
# run our checks on /repo with the patch applied
assert sh('git -C /repo status --porcelain --untracked-files=no')[1].strip() == '', '/repo not clean'
rc, out = sh('git -C /repo apply %s' % patch)
assert rc == 0, 'patch does not apply to /repo: ' + out
try:
    for c in checks:
        t = time.time()
        if not os.path.exists('/verif/vf/props/%s.py' % c.lower()):
            continue
        rc, out = sh('./check %s' % c, cwd='/verif')
        sigs = [l.strip()[11:] for l in out.split('\n') if l.strip().startswith('signature:')]
        meta['ran'].append({'check': c, 'exit': rc, 'violations': len(sigs), 'first_signatures': sigs[:4], 'wall_s': round(time.time() - t, 1)})
        print('  %s exit=%d violations=%d %s' % (c, rc, len(sigs), sigs[:2]))
finally:
    sh('git -C /repo checkout -- .')
meta['detected_by'] = [r['check'] for r in meta['ran'] if r['exit'] == 1 and r['violations'] > 0]
d = os.path.join('/verif/seeded', name)
os.makedirs(d, exist_ok=True)
for f in ('patch.diff', 'demo.py', 'notes.md'):
    if os.path.exists(os.path.join(mutdir, f)):
        shutil.copy(os.path.join(mutdir, f), os.path.join(d, f))
notes = open(os.path.join(mutdir, 'notes.md')).read() if os.path.exists(os.path.join(mutdir, 'notes.md')) else ''
meta['needs_to_manifest'] = notes[:1500]
json.dump(meta, open(os.path.join(d, 'meta.json'), 'w'), indent=1)
print('  stored in', d, 'detected_by', meta['detected_by'])
