#!/usr/bin/env python3
"""Writes DETECTION.md from seeded/*/meta.json (which checks catch which seeded defect)."""
import glob, json, os
rows = []
for f in sorted(glob.glob('/verif/seeded/*/meta.json')):
    m = json.load(open(f))
    notes = (m.get('needs_to_manifest') or '').strip().split('\n')
    first = next((l.strip('# ').strip() for l in notes if l.strip()), '')
    det = ', '.join(m.get('detected_by') or []) or '—'
    if m.get('obsolete'):
        det = 'n/a (no longer breaks the property: %s)' % m['obsolete']
    ran = ', '.join('%s:%s' % (r['check'], 'VIOLATION' if r['exit'] == 1 and r['violations'] else 'silent') for r in m.get('ran', []))
    sig = ''
    for r in m.get('ran', []):
        if r['exit'] == 1 and r.get('first_signatures'):
            sig = r['first_signatures'][0][:90]
            break
    rows.append((m['name'], m['property'], first[:110], m.get('tests_with_patch', ''), det, sig))
out = ['# Seeded defects and which checks catch them', '',
       'Every row is a change to borglab/wrap produced by an independent sub-agent that saw only the property text and a scratch',
       'worktree (nothing from /verif).  Each was confirmed here: the 94 repository tests still pass with the patch, the agent\'s',
       'demonstration passes on the clean tree and fails with the patch.  `detected by` lists the quick-tier checks that exit 1',
       'with a VIOLATION line when the patch is applied to /repo (apply, run, revert).  Patches, demonstrations and notes are in',
       '`seeded/<name>/`.', '',
       '| seed | property | what the change is | tests with patch | detected by | first signature |', '|---|---|---|---|---|---|']
for r in rows:
    out.append('| %s | %s | %s | %s | %s | `%s` |' % tuple(str(x).replace('|', '\\|') for x in r))
nd = [r for r in rows if r[4] == '—']
ob = [r for r in rows if r[4].startswith('n/a')]
out += ['', '%d seeded defects%s, %d detected by at least one check.' % (len(rows) - len(ob), ' (plus %d made harmless by a later fix)' % len(ob) if ob else '', len(rows) - len(nd) - len(ob))]
if nd:
    out += ['', 'Not detected: ' + ', '.join(r[0] for r in nd)]
open('/verif/DETECTION.md', 'w').write('\n'.join(out) + '\n')
print(len(rows), 'rows;', len(nd), 'undetected')
