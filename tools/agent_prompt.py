#!/usr/bin/env python3
"""Print the prompt for a mutation sub-agent: property text + worktree only (nothing from /verif)."""
import json, sys
pid, wt = sys.argv[1], sys.argv[2]
n = sys.argv[3] if len(sys.argv) > 3 else '2'
for l in open('/verif/properties.jsonl'):
    p = json.loads(l)
    if p['id'] == pid:
        break
import glob
tried = []
for f in sorted(glob.glob('/verif/seeded/*/meta.json')):
    m = json.load(open(f))
    notes = (m.get('needs_to_manifest') or '').strip().split('\n')
    first = next((l.strip('# ').strip() for l in notes if l.strip()), '')
    tried.append('%s: %s' % (m['property'], first[:160]))
TRIED = '\n'.join('  - ' + t for t in tried) if len(sys.argv) > 4 and sys.argv[4] == 'avoid' else ''
print(f"""You are helping to evaluate a verification effort for the open-source project borglab/wrap (GTSAM's `wrap` tool: a pyparsing-based parser for a C++ interface-file dialect, a template instantiator, and generators for pybind11 and MATLAB MEX wrappers).

You have your own scratch git worktree of the project at {wt} (a checkout of the current HEAD). Work ONLY inside {wt} (and, for scratch files, inside {wt}/_agent/). Do not read or write /repo, /verif or any other directory of the machine except the Python/g++ toolchain. There is no network.

Here is one semantic property that the project is supposed to satisfy:

  id: {p['id']}
  title: {p['title']}
  statement: {p['statement']}
  quantifier: {p['quantifier']['text']}
  why the existing tests cannot settle it: {p['why_tests_cant']}
  code anchors: {json.dumps(p['anchors'].get('files'))}; mechanisms: {json.dumps([m['name'] + ' @ ' + m.get('where', '') for m in p['anchors'].get('mechanism', [])])}

YOUR TASK: produce {n} DIFFERENT, independent, realistic changes ("seeded defects") to the project's source (files under gtwrap/, scripts/, matlab.h — not the tests, not the fixtures, not the expected outputs) such that each change
  (a) BREAKS the property above (some input/configuration/history exists for which the statement becomes false),
  (b) still imports/compiles and lets the ENTIRE existing test suite pass unchanged:  cd {wt} && PYTHONPATH={wt} /venv/bin/python -m pytest -q -p no:cacheprovider --continue-on-collection-errors tests   (must report 94 passed), and
  (c) needs something SPECIFIC to manifest — an unusual but legal input, a particular nesting depth or combination of constructs, a particular option setting, a multi-step sequence, two cooperating code sites that each look fine alone — NOT something ordinary use or the fixtures would expose at once. Think of the kind of regression a plausible refactoring or "optimisation" would introduce: an off-by-one, a lost qualifier for one shape only, a shared mutable default, a cache keyed too coarsely, a substring test instead of an exact test, an ordering assumption, etc. Each change should be small (a few lines).

For EACH change i = 1..{n} deliver, under {wt}/_agent/mut<i>/ :
  - patch.diff : the change as a unified diff produced by `git -C {wt} diff` (apply it to a clean tree to make the diff, then `git -C {wt} checkout -- .` to restore the clean tree before working on the next change; the worktree must be clean when you finish — except for the untracked _agent/ directory);
  - demo.py : a small self-contained program (run as  PYTHONPATH={wt} /venv/bin/python demo.py ) that exits 0 and prints PASS on the UNCHANGED tree, and exits 1 and prints FAIL (with a short explanation) when patch.diff is applied. It must use only the project's public Python entry points (gtwrap.interface_parser, gtwrap.template_instantiator, gtwrap.pybind_wrapper.PybindWrapper, gtwrap.matlab_wrapper.MatlabWrapper, the scripts) and, if needed, g++ / the Python at /venv/bin/python;
  - notes.md : 5-10 lines: what the change is, which input/condition it needs in order to manifest, why the existing tests still pass.

{('IMPORTANT - earlier rounds already produced the following changes (for this and for related properties). Do NOT repeat any of them or a close variant (same code site with the same idea); find genuinely different code sites, mechanisms and triggering conditions:' + chr(10) + TRIED + chr(10)) if TRIED else ''}
Verify all of it yourself before finishing: for each change, on the clean tree run the test-suite (94 passed) and demo.py (PASS); apply the patch, run the test-suite (must still be 94 passed) and demo.py (must print FAIL, exit 1); restore the clean tree. A change that makes any existing test fail is useless — discard it and find another. Finish with a short summary listing the {n} changes and the verification results. Note: the file gtwrap/matlab_wrapper/matlab_wrapper.tpl is git-ignored and already present in your worktree; leave it there.""")
