#!/usr/bin/env python3
"""tools/mut.py <file-in-repo> <old> <new> <check>... [--tests]
Apply a one-off textual mutation to /repo, run the given checks (quick), report, revert."""
import subprocess, sys, os
args = sys.argv[1:]
tests = '--tests' in args
args = [a for a in args if a != '--tests']
f, old, new, checks = args[0], args[1], args[2], args[3:]
p = os.path.join('/repo', f)
s = open(p).read()
old = old.encode().decode('unicode_escape'); new = new.encode().decode('unicode_escape')
assert s.count(old) >= 1, 'pattern not found'
open(p, 'w').write(s.replace(old, new, 1))
try:
    if tests:
        r = subprocess.run('cd /repo && /venv/bin/python -m pytest -q -p no:cacheprovider --continue-on-collection-errors 2>&1 | tail -1', shell=True, capture_output=True, text=True)
        print('TESTS:', r.stdout.strip())
    for c in checks:
        r = subprocess.run(['./check', c], cwd='/verif', capture_output=True, text=True)
        sigs = [l.strip() for l in r.stdout.split('\n') if l.strip().startswith('signature:')]
        print('%s exit=%d violations=%d %s' % (c, r.returncode, len(sigs), sigs[:3]))
        if r.returncode not in (0, 1):
            print([l for l in r.stdout.split('\n') if 'HARNESS' in l][:3], r.stderr[-500:])
finally:
    subprocess.run(['git', '-C', '/repo', 'checkout', '--', f])
