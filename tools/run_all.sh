#!/bin/bash
# tools/run_all.sh [tier] : run every check on the current /repo tree, one summary line each
cd /verif
tier=${1:-quick}
for c in C01 C02 C03 C04 C05 C06 C07 C08 C09 C10 C11 C12 C13 C14 C15 C16 C17 C18 C19; do
  out=$(./check $c --tier $tier 2>&1); rc=$?
  echo "$c exit=$rc $(echo "$out" | grep -E 'tier=' | cut -c1-160)"
  echo "$out" | grep -E "VIOLATION|HARNESS" | head -5
done
