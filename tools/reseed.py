#!/usr/bin/env python3
"""tools/reseed.py <seed-name> <check>...  : re-run checks against a stored seeded defect (apply to /repo, run, revert)
and merge the result into its meta.json."""
import json, os, subprocess, sys, time
name, checks = sys.argv[1], sys.argv[2:]
d = os.path.join('/verif/seeded', name)
meta = json.load(open(os.path.join(d, 'meta.json')))
def sh(cmd, cwd=None):
    r = subprocess.run(cmd, shell=True, cwd=cwd, capture_output=True, text=True)
    return r.returncode, r.stdout + r.stderr
assert sh('git -C /repo status --porcelain --untracked-files=no')[1].strip() == '', '/repo not clean'
rc, out = sh('git -C /repo apply %s' % os.path.join(d, 'patch.diff'))
assert rc == 0, out
try:
    for c in checks:
        t = time.time()
        rc, out = sh('./check %s' % c, cwd='/verif')
        sigs = [l.strip()[11:] for l in out.split('\n') if l.strip().startswith('signature:')]
        meta['ran'] = [r for r in meta['ran'] if r['check'] != c] + [{'check': c, 'exit': rc, 'violations': len(sigs), 'first_signatures': sigs[:4], 'wall_s': round(time.time() - t, 1)}]
        print('  %s: %s exit=%d violations=%d %s' % (name, c, rc, len(sigs), sigs[:2]))
finally:
    sh('git -C /repo checkout -- .')
meta['detected_by'] = sorted({r['check'] for r in meta['ran'] if r['exit'] == 1 and r['violations'] > 0})
json.dump(meta, open(os.path.join(d, 'meta.json'), 'w'), indent=1)
